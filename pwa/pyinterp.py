"""E0/E2 core: a small AST interpreter for the Python subset the repository uses.

The interpreter never imports or executes repository code.  It parses the
source files under <repo>/pytorch_wavelets with ``ast`` and evaluates them over
*abstract* values: configuration values (ints, strings, flags, shapes, index
arrays) are concrete Python/numpy objects, tensors and filter arrays are the
abstract values of ``pwa.domain``.  External libraries (torch, numpy, pywt,
pkg_resources) are replaced by the transfer tables in ``pwa.fakelibs``.

Anything outside the supported subset raises ``AnalysisError`` (exit status 2
in the runner): the engine refuses to guess.
"""
import ast
import operator
import os

from .errors import AnalysisError, PyExc, Finding


class Loc:
    __slots__ = ('file', 'line', 'func', 'text')

    def __init__(self, file, line, func, text=''):
        self.file, self.line, self.func, self.text = file, line, func, text

    def __repr__(self):
        return '%s:%s(%s)' % (self.file, self.line, self.func)


class Module:
    def __init__(self, name, path, src):
        self.name, self.path, self.src = name, path, src
        self.ns = {'__name__': name}
        self.lines = src.splitlines()

    def __repr__(self):
        return '<repo module %s>' % self.name


class PyFunc:
    def __init__(self, node, module, closure, qualname, defaults, kwdefaults, cls=None):
        self.node, self.module, self.closure = node, module, closure
        self.qualname, self.defaults, self.kwdefaults = qualname, defaults, kwdefaults
        self.name = node.name
        self.attrs = {}
        self.cls = cls
        self.is_static = False
        self.is_generator = None

    def __repr__(self):
        return '<fn %s.%s>' % (self.module.name, self.qualname)


class PyClass:
    def __init__(self, name, bases, ns, module):
        self.name, self.bases, self.ns, self.module = name, bases, ns, module
        self.qualname = name

    def mro(self):
        out = [self]
        for b in self.bases:
            if isinstance(b, PyClass):
                for c in b.mro():
                    if c not in out:
                        out.append(c)
            else:
                if b not in out:
                    out.append(b)
        return out

    def lookup(self, name):
        for c in self.mro():
            if isinstance(c, PyClass):
                if name in c.ns:
                    return c.ns[name]
            else:
                v = c.class_attr(name) if hasattr(c, 'class_attr') else None
                if v is not None:
                    return v
        return None

    def has_base(self, extname):
        for c in self.mro():
            if not isinstance(c, PyClass) and getattr(c, 'extname', None) == extname:
                return True
        return False

    def __repr__(self):
        return '<class %s.%s>' % (self.module.name, self.name)


class _EnvFrame:
    """minimal frame for evaluating an expression in a dict environment"""

    def __init__(self, module, env):
        self.module, self.locals, self.closure, self.globals_decl, self.func = module, env, [], set(), None
        self.classname = None


class PyInstance:
    def __init__(self, cls):
        self.cls = cls
        self.attrs = {}
        self.buffers = {}
        self.params = {}
        self.frozen = False     # set by drivers after construction

    def __repr__(self):
        return '<%s instance>' % self.cls.name


class BoundMethod:
    def __init__(self, func, self_obj):
        self.func, self.self_obj = func, self_obj

    def __repr__(self):
        return '<bound %r>' % (self.func,)


class StaticMethod:
    def __init__(self, func):
        self.func = func


class ClassMethod:
    def __init__(self, func):
        self.func = func


class Property:
    def __init__(self, fget, fset=None):
        self.fget, self.fset = fget, fset

    def setter(self, f):
        return Property(self.fget, f)


class SuperProxy:
    def __init__(self, cls, inst):
        self.cls, self.inst = cls, inst


class _Flow(Exception):
    pass


class _Return(_Flow):
    def __init__(self, value):
        self.value = value


class _Unbound:
    def __repr__(self):
        return '<unbound>'


UNBOUND = _Unbound()


class Frame:
    __slots__ = ('func', 'locals', 'module', 'closure', 'line', 'callsite', 'globals_decl', 'classname',
                 'nonlocal_decl', 'yielded')

    def __init__(self, func, module, closure, callsite):
        self.func, self.module, self.closure = func, module, closure
        self.locals = {}
        self.line = 0
        self.callsite = callsite
        self.globals_decl = set()
        self.classname = None
        self.nonlocal_decl = set()
        self.yielded = None


_BINOPS = {
    ast.Add: operator.add, ast.Sub: operator.sub, ast.Mult: operator.mul,
    ast.Div: operator.truediv, ast.FloorDiv: operator.floordiv, ast.Mod: operator.mod,
    ast.Pow: operator.pow, ast.LShift: operator.lshift, ast.RShift: operator.rshift,
    ast.BitAnd: operator.and_, ast.BitOr: operator.or_, ast.BitXor: operator.xor,
    ast.MatMult: operator.matmul,
}
_IBINOPS = {
    ast.Add: operator.iadd, ast.Sub: operator.isub, ast.Mult: operator.imul,
    ast.Div: operator.itruediv, ast.FloorDiv: operator.ifloordiv, ast.Mod: operator.imod,
    ast.Pow: operator.ipow, ast.BitAnd: operator.iand, ast.BitOr: operator.ior,
}
_CMPOPS = {
    ast.Eq: operator.eq, ast.NotEq: operator.ne, ast.Lt: operator.lt, ast.LtE: operator.le,
    ast.Gt: operator.gt, ast.GtE: operator.ge,
}


class Interp:
    """One interpreter instance = one abstract 'process' (module globals such
    as COEFF_CACHE persist across calls made through the same instance)."""

    def __init__(self, repo, libs, package='pytorch_wavelets'):
        self.repo = repo
        self.package = package
        self.libs = libs                  # pwa.fakelibs.Libs
        self.modules = {}
        self.instances = []
        self.stack = []                   # Frame stack
        self.events = []                  # effect events (writes, mutations, ...)
        self.findings = []                # Finding objects raised by the domain
        self.nograd = 0
        self.steps = 0
        self.max_steps = 5_000_000
        self.trace_calls = None           # optional list collecting (qualname, callsite)
        self.call_counts = {}
        self.stmt_count = 0
        libs.bind(self)

    # ------------------------------------------------------------------ loc
    def loc(self):
        if not self.stack:
            return Loc('<driver>', 0, '<driver>')
        fr = self.stack[-1]
        text = ''
        if 0 < fr.line <= len(fr.module.lines):
            text = fr.module.lines[fr.line - 1].strip()
        return Loc(os.path.relpath(fr.module.path, self.repo), fr.line,
                   fr.func.qualname if fr.func else '<module>', text)

    def callpath(self):
        return [(fr.func.qualname if fr.func else '<module>') for fr in self.stack]

    def event(self, kind, **kw):
        kw['kind'] = kind
        kw['loc'] = self.loc()
        kw['path'] = tuple(self.callpath())
        self.events.append(kw)

    def finding(self, rule, msg, **kw):
        self.findings.append(Finding(rule=rule, msg=msg, loc=self.loc(), path=tuple(self.callpath()), **kw))

    # -------------------------------------------------------------- modules
    def module_path(self, dotted):
        rel = dotted.replace('.', '/')
        p = os.path.join(self.repo, rel + '.py')
        if os.path.isfile(p):
            return p
        p = os.path.join(self.repo, rel, '__init__.py')
        if os.path.isfile(p):
            return p
        return None

    def load_module(self, dotted):
        if dotted in self.modules:
            return self.modules[dotted]
        path = self.module_path(dotted)
        if path is None:
            raise AnalysisError('module-not-found', dotted)
        with open(path, encoding='utf-8') as f:
            src = f.read()
        mod = Module(dotted, path, src)
        mod.is_pkg = path.endswith('__init__.py')
        self.modules[dotted] = mod
        tree = ast.parse(src, path)
        mod.tree = tree
        fr = Frame(None, mod, [], None)
        fr.locals = mod.ns
        self.stack.append(fr)
        try:
            self.exec_block(tree.body, fr)
        finally:
            self.stack.pop()
        return mod

    def resolve_import(self, dotted):
        """Return a repo Module or an external library object."""
        if dotted == self.package or dotted.startswith(self.package + '.'):
            return self.load_module(dotted)
        return self.libs.module(dotted)

    # ----------------------------------------------------------- statements
    def exec_block(self, body, fr):
        for st in body:
            self.exec_stmt(st, fr)

    def exec_stmt(self, st, fr):
        fr.line = st.lineno
        self.steps += 1
        self.stmt_count += 1
        if self.steps > self.max_steps:
            raise AnalysisError('step-limit', 'interpreter step limit exceeded')
        m = getattr(self, 'st_' + type(st).__name__, None)
        if m is None:
            raise AnalysisError('unknown-construct', 'statement %s at %s' % (type(st).__name__, self.loc()))
        try:
            m(st, fr)
        except (PyExc, AnalysisError) as e:
            if getattr(e, 'loc', None) is None:
                e.loc = self.loc()
                e.path = tuple(self.callpath())
            raise
        except _Flow:
            raise
        except Exception as e:
            if e.__class__.__name__ == 'DomainViolation' and getattr(e, 'loc', None) is None:
                e.loc = self.loc()
                e.path = tuple(self.callpath())
            raise

    def st_Expr(self, st, fr):
        self.eval(st.value, fr)

    def st_Pass(self, st, fr):
        pass

    def st_Import(self, st, fr):
        for a in st.names:
            if a.asname:
                self.store_name(a.asname, self.resolve_import(a.name), fr)
            else:
                top = a.name.split('.')[0]
                self.resolve_import(a.name)
                self.store_name(top, self.resolve_import(top), fr)

    def st_ImportFrom(self, st, fr):
        if st.module == '__future__':
            return
        base = st.module or ''
        if st.level:
            pkg = fr.module.name.split('.')
            if not getattr(fr.module, 'is_pkg', False):
                pkg = pkg[:-1]
            if st.level > 1:
                pkg = pkg[:-(st.level - 1)]
            base = '.'.join(pkg + ([st.module] if st.module else []))
        mod = self.resolve_import(base)
        for a in st.names:
            if a.name == '*':
                raise AnalysisError('unknown-construct', 'star import at %s' % self.loc())
            if isinstance(mod, Module):
                if a.name in mod.ns:
                    val = mod.ns[a.name]
                else:
                    sub = base + '.' + a.name
                    if self.module_path(sub):
                        val = self.load_module(sub)
                    else:
                        raise PyExc('ImportError', 'cannot import name %s from %s' % (a.name, base))
            else:
                val = self.libs.getattr(mod, a.name)
            self.store_name(a.asname or a.name, val, fr)

    def st_FunctionDef(self, st, fr):
        fn = self.make_function(st, fr)
        for dec in reversed(st.decorator_list):
            d = self.eval(dec, fr)
            if d is self.libs.builtins.get('staticmethod'):
                fn = StaticMethod(fn)
            elif d is self.libs.builtins.get('classmethod'):
                fn = ClassMethod(fn)
            elif d is self.libs.builtins.get('property'):
                fn = Property(fn)
            elif isinstance(d, BoundMethod) and False:
                pass
            else:
                fn = self.call(d, [fn], {})
        self.store_name(st.name, fn, fr)

    def make_function(self, st, fr, cls=None):
        a = st.args
        defaults = [self.eval(d, fr) for d in a.defaults]
        kwdefaults = {}
        for k, d in zip(a.kwonlyargs, a.kw_defaults):
            if d is not None:
                kwdefaults[k.arg] = self.eval(d, fr)
        closure = []
        if fr.func is not None:
            closure = [fr.locals] + list(fr.closure)
        qual = st.name
        if fr.func is not None:
            qual = fr.func.qualname + '.<locals>.' + st.name
        elif getattr(fr, 'classname', None):
            qual = fr.classname + '.' + st.name
        return PyFunc(st, fr.module, closure, qual, defaults, kwdefaults)

    def synth_function(self, node, cls, env):
        """a function synthesised by the analyser (dataclass __init__): `env` holds its free names"""
        f = PyFunc(node, cls.module, [env], cls.name + '.' + node.name,
                   [self.eval(d, _EnvFrame(cls.module, env)) for d in node.args.defaults], {})
        f.cls = cls
        return f

    def host_class(self, st, fr, bases):
        """class statement whose base is a real standard-library class (enum.Enum family, typing.NamedTuple):
        only data-only bodies are supported; the class is built by the real base's functional API"""
        import enum
        import typing
        import collections
        members, annotated = [], []
        cfr = Frame(None, fr.module, fr.closure, None)
        cfr.locals = {}
        cfr.classname = st.name
        for b in st.body:
            if isinstance(b, ast.Expr) and isinstance(b.value, ast.Constant):
                continue
            if isinstance(b, ast.Pass):
                continue
            if isinstance(b, ast.Assign) and len(b.targets) == 1 and isinstance(b.targets[0], ast.Name):
                self.stack.append(cfr)
                try:
                    v = self.eval(b.value, cfr)
                finally:
                    self.stack.pop()
                cfr.locals[b.targets[0].id] = v
                members.append((b.targets[0].id, v))
                continue
            if isinstance(b, ast.AnnAssign) and isinstance(b.target, ast.Name):
                annotated.append(b.target.id)
                if b.value is not None:
                    self.stack.append(cfr)
                    try:
                        cfr.locals[b.target.id] = self.eval(b.value, cfr)
                    finally:
                        self.stack.pop()
                continue
            raise AnalysisError('unknown-construct', 'class %s derives from a library class and has a non-data body '
                                '(%s) at %s' % (st.name, type(b).__name__, self.loc()))
        base = bases[0]
        if len(bases) == 1 and isinstance(base, type) and issubclass(base, enum.Enum):
            return base(st.name, members)
        if len(bases) == 1 and base is typing.NamedTuple:
            return collections.namedtuple(st.name, annotated,
                                          defaults=[cfr.locals[n] for n in annotated if n in cfr.locals] or None)
        raise AnalysisError('unknown-construct', 'class %s derives from library class %r at %s'
                            % (st.name, base, self.loc()))

    def st_ClassDef(self, st, fr):
        bases = [self.eval(b, fr) for b in st.bases]
        if any(isinstance(b, type) or b is __import__('typing').NamedTuple for b in bases):
            cls = self.host_class(st, fr, bases)
            self.store_name(st.name, cls, fr)
            return
        ns = {}
        cfr = Frame(fr.func, fr.module, fr.closure, None)
        cfr.locals = ns
        cfr_class = st.name
        # class body executes in its own namespace; names resolve to module globals
        cls = PyClass(st.name, bases, ns, fr.module)
        cfr.func = None
        cfr.classname = st.name
        self.stack.append(cfr)
        try:
            self.exec_block(st.body, cfr)
        finally:
            self.stack.pop()
        for k, v in ns.items():
            f = v.func if isinstance(v, (StaticMethod, ClassMethod)) else v
            if isinstance(f, Property):
                for g in (f.fget, f.fset):
                    if isinstance(g, PyFunc):
                        g.cls = cls
                continue
            if isinstance(f, PyFunc):
                f.cls = cls
        cls.annotated = [b.target.id for b in st.body if isinstance(b, ast.AnnAssign) and isinstance(b.target, ast.Name)]
        for dec in reversed(st.decorator_list):
            cls = self.call(self.eval(dec, fr), [cls], {})
        self.store_name(st.name, cls, fr)

    def st_Return(self, st, fr):
        raise _Return(self.eval(st.value, fr) if st.value is not None else None)

    def st_Assign(self, st, fr):
        val = self.eval(st.value, fr)
        for t in st.targets:
            self.assign(t, val, fr)

    def st_AnnAssign(self, st, fr):
        if st.value is not None:
            self.assign(st.target, self.eval(st.value, fr), fr)

    def st_AugAssign(self, st, fr):
        op = _IBINOPS.get(type(st.op))
        if op is None:
            raise AnalysisError('unknown-construct', 'augassign op at %s' % self.loc())
        t = st.target
        if isinstance(t, ast.Name):
            cur = self.load_name(t.id, fr)
            new = self.binop(op, cur, self.eval(st.value, fr))
            self.store_name(t.id, new, fr)
        elif isinstance(t, ast.Subscript):
            obj = self.eval(t.value, fr)
            idx = self.eval_index(t.slice, fr)
            cur = self.getitem(obj, idx)
            if self.libs.is_tensor(obj):
                # t[idx] += v on a tensor: the in-place add goes through the view t[idx] into t's storage and
                # the store writes it back onto itself; net effect t[idx] = t[idx] + v, an in-place write on t
                new = self.binop(_BINOPS[type(st.op)], cur, self.eval(st.value, fr))
            else:
                new = self.binop(op, cur, self.eval(st.value, fr))
            self.setitem(obj, idx, new)
        elif isinstance(t, ast.Attribute):
            obj = self.eval(t.value, fr)
            cur = self.getattr(obj, t.attr)
            new = self.binop(op, cur, self.eval(st.value, fr))
            self.setattr(obj, t.attr, new)
        else:
            raise AnalysisError('unknown-construct', 'augassign target at %s' % self.loc())

    def st_If(self, st, fr):
        if self.truth(self.eval(st.test, fr)):
            self.exec_block(st.body, fr)
        else:
            self.exec_block(st.orelse, fr)

    def st_For(self, st, fr):
        it = self.eval(st.iter, fr)
        for v in self.iterate(it):
            self.assign(st.target, v, fr)
            try:
                self.exec_block(st.body, fr)
            except _Break:
                break
            except _Continue:
                continue
        else:
            self.exec_block(st.orelse, fr)

    def st_While(self, st, fr):
        n = 0
        while self.truth(self.eval(st.test, fr)):
            n += 1
            if n > 100000:
                raise AnalysisError('step-limit', 'while loop at %s' % self.loc())
            try:
                self.exec_block(st.body, fr)
            except _Break:
                break
            except _Continue:
                continue
        else:
            self.exec_block(st.orelse, fr)

    def st_Break(self, st, fr):
        raise _Break()

    def st_Continue(self, st, fr):
        raise _Continue()

    def st_Raise(self, st, fr):
        if st.exc is None:
            raise AnalysisError('unknown-construct', 'bare raise at %s' % self.loc())
        e = self.eval(st.exc, fr)
        if isinstance(e, ExcClass):
            e = ExcValue(e.name, ())
        if not isinstance(e, ExcValue):
            raise AnalysisError('unknown-construct', 'raise of non-exception at %s' % self.loc())
        raise PyExc(e.name, e.message(), loc=self.loc())

    def st_Assert(self, st, fr):
        if not self.truth(self.eval(st.test, fr)):
            msg = self.eval(st.msg, fr) if st.msg is not None else ''
            raise PyExc('AssertionError', str(msg), loc=self.loc())

    def st_Delete(self, st, fr):
        for t in st.targets:
            if isinstance(t, ast.Name):
                if t.id in fr.locals:
                    del fr.locals[t.id]
                else:
                    raise PyExc('NameError', t.id, loc=self.loc())
            elif isinstance(t, ast.Subscript):
                obj = self.eval(t.value, fr)
                idx = self.eval_index(t.slice, fr)
                self.delitem(obj, idx)
            else:
                raise AnalysisError('unknown-construct', 'del target at %s' % self.loc())

    def st_Global(self, st, fr):
        fr.globals_decl.update(st.names)

    def st_Nonlocal(self, st, fr):
        fr.nonlocal_decl.update(st.names)

    def st_Match(self, st, fr):
        subject = self.eval(st.subject, fr)
        for case in st.cases:
            binds = {}
            if self.match_pattern(case.pattern, subject, binds):
                for k, v in binds.items():
                    self.store_name(k, v, fr)
                if case.guard is None or self.truth(self.eval(case.guard, fr)):
                    self.exec_block(case.body, fr)
                    return

    def match_pattern(self, pat, v, binds):
        if isinstance(pat, ast.MatchValue):
            return self.truth(self.binop(operator.eq, v, self.eval(pat.value, self.stack[-1])))
        if isinstance(pat, ast.MatchSingleton):
            return v is pat.value
        if isinstance(pat, ast.MatchAs):
            if pat.pattern is not None and not self.match_pattern(pat.pattern, v, binds):
                return False
            if pat.name is not None:
                binds[pat.name] = v
            return True
        if isinstance(pat, ast.MatchOr):
            return any(self.match_pattern(q, v, binds) for q in pat.patterns)
        if isinstance(pat, ast.MatchSequence):
            if not isinstance(v, (list, tuple)):
                return False
            stars = [i for i, q in enumerate(pat.patterns) if isinstance(q, ast.MatchStar)]
            if not stars:
                return len(v) == len(pat.patterns) and all(self.match_pattern(q, x, binds)
                                                           for q, x in zip(pat.patterns, v))
            i = stars[0]
            after = len(pat.patterns) - i - 1
            if len(v) < len(pat.patterns) - 1:
                return False
            if not all(self.match_pattern(q, x, binds) for q, x in zip(pat.patterns[:i], v[:i])):
                return False
            if after and not all(self.match_pattern(q, x, binds) for q, x in zip(pat.patterns[i + 1:], v[len(v) - after:])):
                return False
            if pat.patterns[i].name is not None:
                binds[pat.patterns[i].name] = list(v[i:len(v) - after])
            return True
        raise AnalysisError('unknown-construct', 'match pattern %s at %s' % (type(pat).__name__, self.loc()))

    def st_With(self, st, fr):
        for item in st.items:
            v = self.eval(item.context_expr, fr)
            if item.optional_vars is not None:
                self.assign(item.optional_vars, v, fr)
        self.exec_block(st.body, fr)

    def st_Try(self, st, fr):
        try:
            try:
                self.exec_block(st.body, fr)
            except PyExc as e:
                for h in st.handlers:
                    if self.exc_matches(e, h, fr):
                        if h.name:
                            self.store_name(h.name, ExcValue(e.name, (e.msg,)), fr)
                        self.exec_block(h.body, fr)
                        break
                else:
                    raise
            else:
                self.exec_block(st.orelse, fr)
        finally:
            if st.finalbody:
                self.exec_block(st.finalbody, fr)

    def exc_matches(self, e, h, fr):
        if h.type is None:
            return True
        t = self.eval(h.type, fr)
        names = []
        for x in (t if isinstance(t, tuple) else (t,)):
            if isinstance(x, ExcClass):
                names.append(x.name)
            else:
                raise AnalysisError('unknown-construct', 'except clause type at %s' % self.loc())
        for n in names:
            if n in ('Exception', 'BaseException') or n == e.name or n in _EXC_PARENTS.get(e.name, ()):
                return True
        return False

    # ---------------------------------------------------------- assignment
    def assign(self, target, val, fr):
        if isinstance(target, ast.Name):
            self.store_name(target.id, val, fr)
        elif isinstance(target, (ast.Tuple, ast.List)):
            vals = list(self.iterate(val))
            star = [i for i, e in enumerate(target.elts) if isinstance(e, ast.Starred)]
            if star:
                i = star[0]
                n_after = len(target.elts) - i - 1
                if len(vals) < len(target.elts) - 1:
                    raise PyExc('ValueError', 'not enough values to unpack', loc=self.loc())
                parts = vals[:i] + [vals[i:len(vals) - n_after]] + vals[len(vals) - n_after:]
                for e, v in zip(target.elts, parts):
                    self.assign(e.value if isinstance(e, ast.Starred) else e, v, fr)
                return
            if len(vals) != len(target.elts):
                raise PyExc('ValueError', 'unpack: expected %d values, got %d' % (len(target.elts), len(vals)),
                            loc=self.loc())
            for e, v in zip(target.elts, vals):
                self.assign(e, v, fr)
        elif isinstance(target, ast.Subscript):
            obj = self.eval(target.value, fr)
            idx = self.eval_index(target.slice, fr)
            self.setitem(obj, idx, val)
        elif isinstance(target, ast.Attribute):
            obj = self.eval(target.value, fr)
            self.setattr(obj, target.attr, val)
        else:
            raise AnalysisError('unknown-construct', 'assignment target %s at %s' % (type(target).__name__, self.loc()))

    def store_name(self, name, val, fr):
        if name in fr.nonlocal_decl:
            for env in fr.closure:
                if name in env:
                    env[name] = val
                    return
            raise AnalysisError('unknown-construct', 'nonlocal %s has no binding at %s' % (name, self.loc()))
        if name in fr.globals_decl:
            self.event('global-write', target=fr.module.name + '.' + name)
            fr.module.ns[name] = val
        else:
            fr.locals[name] = val

    def load_name(self, name, fr):
        if name in fr.locals and name not in fr.globals_decl:
            return fr.locals[name]
        for env in fr.closure:
            if name in env:
                return env[name]
        if name in fr.module.ns:
            return fr.module.ns[name]
        b = self.libs.builtins
        if name in b:
            return b[name]
        # a local that is assigned somewhere in the function but not yet bound
        raise PyExc('UnboundLocalError' if self.is_local_name(name, fr) else 'NameError', name, loc=self.loc())

    def is_local_name(self, name, fr):
        if fr.func is None:
            return False
        for n in ast.walk(fr.func.node):
            if isinstance(n, ast.Name) and n.id == name and isinstance(n.ctx, (ast.Store, ast.Del)):
                return True
        return False

    # ------------------------------------------------------------- objects
    def getattr(self, obj, name):
        if isinstance(obj, Module):
            if name in obj.ns:
                return obj.ns[name]
            sub = obj.name + '.' + name
            if self.module_path(sub):
                return self.load_module(sub)
            raise PyExc('AttributeError', '%s has no attribute %s' % (obj.name, name), loc=self.loc())
        if isinstance(obj, PyInstance):
            if name in obj.attrs:
                return obj.attrs[name]
            v = obj.cls.lookup(name)
            if v is not None:
                return self.bind(v, obj)
            raise PyExc('AttributeError', "'%s' object has no attribute '%s'" % (obj.cls.name, name), loc=self.loc())
        if isinstance(obj, PyClass):
            v = obj.lookup(name)
            if v is None:
                raise PyExc('AttributeError', "class %s has no attribute '%s'" % (obj.name, name), loc=self.loc())
            if isinstance(v, StaticMethod):
                return v.func
            if isinstance(v, ClassMethod):
                return BoundMethod(v.func, obj)
            if isinstance(v, ExtClassMethod):
                return v.bind_class(obj)
            return v
        if isinstance(obj, PyFunc):
            if name in obj.attrs:
                return obj.attrs[name]
            if name == '__name__':
                return obj.name
            raise PyExc('AttributeError', "function has no attribute '%s'" % name, loc=self.loc())
        if isinstance(obj, SuperProxy):
            mro = obj.inst.cls.mro()
            i = mro.index(obj.cls)
            for c in mro[i + 1:]:
                if isinstance(c, PyClass):
                    if name in c.ns:
                        return self.bind(c.ns[name], obj.inst)
                else:
                    v = c.class_attr(name)
                    if v is not None:
                        return self.bind(v, obj.inst)
            raise PyExc('AttributeError', 'super has no attribute %s' % name, loc=self.loc())
        if obj is None:
            raise PyExc('AttributeError', "'NoneType' object has no attribute '%s'" % name, loc=self.loc())
        if isinstance(obj, Property) and name == 'setter':
            return obj.setter
        return self.libs.getattr(obj, name)

    def bind(self, v, inst):
        if isinstance(v, StaticMethod):
            return v.func
        if isinstance(v, ClassMethod):
            return BoundMethod(v.func, inst.cls)
        if isinstance(v, Property):
            return self.call(v.fget, [inst], {})
        if isinstance(v, PyFunc):
            return BoundMethod(v, inst)
        if isinstance(v, ExtMethod):
            return v.bind(inst)
        return v

    def setattr(self, obj, name, val):
        if isinstance(obj, PyInstance):
            d = obj.cls.lookup(name)
            if isinstance(d, Property):
                if d.fset is None:
                    raise PyExc('AttributeError', "can't set attribute '%s'" % name, loc=self.loc())
                self.call(d.fset, [obj, val], {})
                return
            if getattr(obj.cls, 'frozen_dataclass', False) and obj.frozen is not None and getattr(obj, 'dc_sealed', False):
                raise PyExc('FrozenInstanceError', "cannot assign to field '%s'" % name, loc=self.loc())
            self.libs.instance_setattr(obj, name, val)
            return
        if isinstance(obj, PyFunc):
            self.event('funcattr-write', target=obj.qualname + '.' + name)
            obj.attrs[name] = val
            return
        if isinstance(obj, Module):
            self.event('global-write', target=obj.name + '.' + name)
            obj.ns[name] = val
            return
        if isinstance(obj, PyClass):
            self.event('classattr-write', target=obj.name + '.' + name)
            obj.ns[name] = val
            return
        self.libs.setattr(obj, name, val)

    def getitem(self, obj, idx):
        return self.libs.getitem(obj, idx)

    def setitem(self, obj, idx, val):
        self.libs.setitem(obj, idx, val)

    def delitem(self, obj, idx):
        self.libs.delitem(obj, idx)

    def iterate(self, it):
        return self.libs.iterate(it)

    def truth(self, v):
        return self.libs.truth(v)

    def binop(self, op, a, b):
        return self.libs.binop(op, a, b)

    # ---------------------------------------------------------- expressions
    def eval(self, e, fr):
        m = getattr(self, 'ex_' + type(e).__name__, None)
        if m is None:
            raise AnalysisError('unknown-construct', 'expression %s at %s' % (type(e).__name__, self.loc()))
        return m(e, fr)

    def ex_Constant(self, e, fr):
        return e.value

    def ex_Name(self, e, fr):
        return self.load_name(e.id, fr)

    def ex_Tuple(self, e, fr):
        return tuple(self.eval_elts(e.elts, fr))

    def ex_List(self, e, fr):
        return list(self.eval_elts(e.elts, fr))

    def ex_Set(self, e, fr):
        return set(self.eval_elts(e.elts, fr))

    def eval_elts(self, elts, fr):
        out = []
        for x in elts:
            if isinstance(x, ast.Starred):
                out.extend(self.iterate(self.eval(x.value, fr)))
            else:
                out.append(self.eval(x, fr))
        return out

    def ex_Dict(self, e, fr):
        d = {}
        for k, v in zip(e.keys, e.values):
            if k is None:
                d.update(self.eval(v, fr))
            else:
                d[self.eval(k, fr)] = self.eval(v, fr)
        return d

    def ex_JoinedStr(self, e, fr):
        parts = []
        for v in e.values:
            if isinstance(v, ast.Constant):
                parts.append(str(v.value))
            else:
                parts.append(self.format_value(v, fr))
        return ''.join(parts)

    def format_value(self, v, fr):
        val = self.eval(v.value, fr)
        if v.conversion == ord('r'):
            val = self.call(self.libs.builtins['repr'], [val], {})
        elif v.conversion == ord('s'):
            val = self.call(self.libs.builtins['str'], [val], {})
        elif v.conversion == ord('a'):
            val = ascii(val)
        spec = ''
        if v.format_spec is not None:
            spec = self.ex_JoinedStr(v.format_spec, fr)
        if spec:
            try:
                return format(val, spec)
            except (TypeError, ValueError) as e:
                raise PyExc(type(e).__name__, str(e), loc=self.loc())
        return self.call(self.libs.builtins['str'], [val], {}) if not isinstance(val, str) else val

    def ex_NamedExpr(self, e, fr):
        v = self.eval(e.value, fr)
        self.assign(e.target, v, fr)
        return v

    def ex_Yield(self, e, fr):
        if fr.yielded is None:
            raise AnalysisError('unknown-construct', 'yield outside a generator function at %s' % self.loc())
        fr.yielded.append(self.eval(e.value, fr) if e.value is not None else None)
        return None

    def ex_YieldFrom(self, e, fr):
        if fr.yielded is None:
            raise AnalysisError('unknown-construct', 'yield from outside a generator function at %s' % self.loc())
        fr.yielded.extend(self.iterate(self.eval(e.value, fr)))
        return None

    def ex_BinOp(self, e, fr):
        op = _BINOPS.get(type(e.op))
        if op is None:
            raise AnalysisError('unknown-construct', 'binop at %s' % self.loc())
        a = self.eval(e.left, fr)
        b = self.eval(e.right, fr)
        return self.binop(op, a, b)

    def ex_UnaryOp(self, e, fr):
        v = self.eval(e.operand, fr)
        if isinstance(e.op, ast.Not):
            return not self.truth(v)
        if isinstance(e.op, ast.USub):
            return self.libs.unop(operator.neg, v)
        if isinstance(e.op, ast.UAdd):
            return self.libs.unop(operator.pos, v)
        if isinstance(e.op, ast.Invert):
            return self.libs.unop(operator.invert, v)
        raise AnalysisError('unknown-construct', 'unary op at %s' % self.loc())

    def ex_BoolOp(self, e, fr):
        if isinstance(e.op, ast.And):
            v = True
            for x in e.values:
                v = self.eval(x, fr)
                if not self.truth(v):
                    return v
            return v
        v = False
        for x in e.values:
            v = self.eval(x, fr)
            if self.truth(v):
                return v
        return v

    def ex_Compare(self, e, fr):
        left = self.eval(e.left, fr)
        for op, right_e in zip(e.ops, e.comparators):
            right = self.eval(right_e, fr)
            if isinstance(op, ast.Is):
                r = self.libs.is_(left, right)
            elif isinstance(op, ast.IsNot):
                r = not self.libs.is_(left, right)
            elif isinstance(op, ast.In):
                r = self.libs.contains(right, left)
            elif isinstance(op, ast.NotIn):
                r = not self.libs.contains(right, left)
            else:
                r = self.libs.compare(_CMPOPS[type(op)], left, right)
            if len(e.ops) == 1:
                return r
            if not self.truth(r):
                return r
            left = right
        return r

    def ex_IfExp(self, e, fr):
        if self.truth(self.eval(e.test, fr)):
            return self.eval(e.body, fr)
        return self.eval(e.orelse, fr)

    def ex_Attribute(self, e, fr):
        return self.getattr(self.eval(e.value, fr), e.attr)

    def eval_index(self, s, fr):
        if isinstance(s, ast.Slice):
            return slice(self.eval(s.lower, fr) if s.lower is not None else None,
                         self.eval(s.upper, fr) if s.upper is not None else None,
                         self.eval(s.step, fr) if s.step is not None else None)
        if isinstance(s, ast.Tuple):
            out = []
            for x in s.elts:
                if isinstance(x, ast.Starred):
                    out.extend(self.iterate(self.eval(x.value, fr)))
                else:
                    out.append(self.eval_index(x, fr))
            return tuple(out)
        return self.eval(s, fr)

    def ex_Subscript(self, e, fr):
        obj = self.eval(e.value, fr)
        idx = self.eval_index(e.slice, fr)
        return self.getitem(obj, idx)

    def ex_Slice(self, e, fr):
        return self.eval_index(e, fr)

    def ex_Starred(self, e, fr):
        raise AnalysisError('unknown-construct', 'starred expression at %s' % self.loc())

    def ex_Lambda(self, e, fr):
        fd = ast.FunctionDef(name='<lambda>', args=e.args, body=[ast.Return(value=e.body, lineno=e.lineno,
                                                                             col_offset=0)],
                             decorator_list=[], lineno=e.lineno, col_offset=0)
        return self.make_function(fd, fr)

    def comp_iter(self, gens, fr, env, body):
        """generic comprehension driver; comprehension variables live in a child scope"""
        def rec(i):
            if i == len(gens):
                body()
                return
            g = gens[i]
            for v in self.iterate(self.eval(g.iter, fr)):
                self.assign(g.target, v, fr)
                if all(self.truth(self.eval(c, fr)) for c in g.ifs):
                    rec(i + 1)
        rec(0)

    def _comp(self, e, fr, kind):
        saved = dict(fr.locals) if fr.func is not None else None
        out = [] if kind != 'dict' else {}
        # comprehension targets are scoped: remember and restore them afterwards
        targets = set()
        for g in e.generators:
            for n in ast.walk(g.target):
                if isinstance(n, ast.Name):
                    targets.add(n.id)
        before = {t: fr.locals.get(t, UNBOUND) for t in targets}

        def body():
            if kind == 'dict':
                out[self.eval(e.key, fr)] = self.eval(e.value, fr)
            else:
                out.append(self.eval(e.elt, fr))
        self.comp_iter(e.generators, fr, None, body)
        for t, v in before.items():
            if v is UNBOUND:
                fr.locals.pop(t, None)
            else:
                fr.locals[t] = v
        return out

    def ex_ListComp(self, e, fr):
        return self._comp(e, fr, 'list')

    def ex_GeneratorExp(self, e, fr):
        return iter(self._comp(e, fr, 'list'))

    def ex_SetComp(self, e, fr):
        return set(self._comp(e, fr, 'list'))

    def ex_DictComp(self, e, fr):
        return self._comp(e, fr, 'dict')

    def ex_Call(self, e, fr):
        f = self.eval(e.func, fr)
        args = []
        for a in e.args:
            if isinstance(a, ast.Starred):
                args.extend(self.iterate(self.eval(a.value, fr)))
            else:
                args.append(self.eval(a, fr))
        kwargs = {}
        for k in e.keywords:
            if k.arg is None:
                kwargs.update(self.eval(k.value, fr))
            else:
                kwargs[k.arg] = self.eval(k.value, fr)
        # zero-arg super()
        if f is self.libs.builtins.get('super') and not args:
            inst = fr.locals.get(fr.func.node.args.args[0].arg) if fr.func and fr.func.node.args.args else None
            cls = fr.func.cls if fr.func else None
            if not isinstance(inst, PyInstance) or cls is None:
                raise AnalysisError('unknown-construct', 'super() outside method at %s' % self.loc())
            return SuperProxy(cls, inst)
        fr.line = e.lineno
        return self.call(f, args, kwargs, callnode=e)

    # ---------------------------------------------------------------- calls
    def call(self, f, args, kwargs, callnode=None):
        if isinstance(f, BoundMethod):
            return self.call(f.func, [f.self_obj] + list(args), kwargs, callnode)
        if isinstance(f, PyFunc):
            return self.call_pyfunc(f, args, kwargs, callnode)
        if isinstance(f, PyClass):
            return self.instantiate(f, args, kwargs)
        if isinstance(f, PyInstance):
            call = f.cls.lookup('__call__')
            if isinstance(call, PyFunc):
                return self.call(BoundMethod(call, f), args, kwargs, callnode)
            return self.libs.call_instance(f, args, kwargs)
        if isinstance(f, StaticMethod):
            return self.call(f.func, args, kwargs, callnode)
        return self.libs.call(f, args, kwargs)

    def instantiate(self, cls, args, kwargs):
        if cls.has_base('torch.autograd.Function'):
            raise AnalysisError('unknown-construct', 'direct instantiation of autograd Function at %s' % self.loc())
        inst = PyInstance(cls)
        self.instances.append(inst)
        init = cls.lookup('__init__')
        if isinstance(init, PyFunc):
            self.call(BoundMethod(init, inst), args, kwargs)
        elif args or kwargs:
            raise PyExc('TypeError', '%s() takes no arguments' % cls.name, loc=self.loc())
        return inst

    def call_pyfunc(self, f, args, kwargs, callnode=None):
        node = f.node
        callsite = self.loc()
        fr = Frame(f, f.module, f.closure, callsite)
        self.bind_arguments(f, args, kwargs, fr.locals, callsite)
        key = f.module.name + '.' + f.qualname
        self.call_counts[key] = self.call_counts.get(key, 0) + 1
        if self.trace_calls is not None:
            self.trace_calls.append((key, callsite))
        if len(self.stack) > 60:
            raise AnalysisError('recursion', 'call depth > 60 at %s' % callsite)
        if f.is_generator is None:
            f.is_generator = _has_yield(node)
        if f.is_generator:
            # generator functions are run eagerly: the values are collected and handed out as an iterator (the
            # analysed code base has no infinite or side-effecting generators; send()/throw() are not modelled)
            fr.yielded = []
        self.stack.append(fr)
        try:
            self.libs.on_enter(f, fr)
            self.exec_block(node.body, fr)
            ret = None
        except _Return as r:
            ret = r.value
        finally:
            self.stack.pop()
        if f.is_generator:
            return iter(fr.yielded)
        return ret

    def bind_arguments(self, f, args, kwargs, loc, callsite=None):
        """Python's argument binding for a function of the analysed program; fills `loc` (name -> value)"""
        a = f.node.args
        params = [p.arg for p in a.posonlyargs + a.args]
        args = list(args)
        kwargs = dict(kwargs)
        if callsite is None:
            callsite = self.loc()
        if len(args) > len(params) and a.vararg is None:
            raise PyExc('TypeError', '%s() takes %d positional arguments but %d were given'
                        % (f.name, len(params), len(args)), loc=callsite)
        for p, v in zip(params, args):
            loc[p] = v
        extra = args[len(params):]
        if a.vararg is not None:
            loc[a.vararg.arg] = tuple(extra)
        ndef = len(f.defaults)
        for i, p in enumerate(params):
            if p in loc:
                if p in kwargs:
                    raise PyExc('TypeError', '%s() got multiple values for argument %s' % (f.name, p), loc=callsite)
                continue
            if p in kwargs:
                loc[p] = kwargs.pop(p)
            else:
                j = i - (len(params) - ndef)
                if j >= 0:
                    loc[p] = f.defaults[j]
                else:
                    raise PyExc('TypeError', '%s() missing required argument %s' % (f.name, p), loc=callsite)
        for k in a.kwonlyargs:
            if k.arg in kwargs:
                loc[k.arg] = kwargs.pop(k.arg)
            elif k.arg in f.kwdefaults:
                loc[k.arg] = f.kwdefaults[k.arg]
            else:
                raise PyExc('TypeError', '%s() missing keyword-only argument %s' % (f.name, k.arg), loc=callsite)
        if a.kwarg is not None:
            loc[a.kwarg.arg] = kwargs
        elif kwargs:
            raise PyExc('TypeError', '%s() got an unexpected keyword argument %s' % (f.name, sorted(kwargs)[0]),
                        loc=callsite)
        return loc


def _has_yield(node):
    """does the function body (not nested functions / lambdas) contain a yield?"""
    todo = list(node.body)
    while todo:
        n = todo.pop()
        if isinstance(n, (ast.Yield, ast.YieldFrom)):
            return True
        if isinstance(n, (ast.FunctionDef, ast.AsyncFunctionDef, ast.Lambda, ast.ClassDef)):
            continue
        todo.extend(ast.iter_child_nodes(n))
    return False


class _Break(_Flow):
    pass


class _Continue(_Flow):
    pass


class ExcClass:
    """A builtin exception class (ValueError, ...) as a value."""

    def __init__(self, name):
        self.name = name

    def __repr__(self):
        return '<exception class %s>' % self.name


class ExcValue:
    def __init__(self, name, args):
        self.name, self.args = name, args

    def message(self):
        return ' '.join(str(a) for a in self.args)

    def __str__(self):
        return str(self.args[0]) if len(self.args) == 1 else (str(tuple(self.args)) if self.args else '')

    def __repr__(self):
        return '%s(%s)' % (self.name, ', '.join(repr(a) for a in self.args))


class ExtMethod:
    """A method supplied by an external base class (nn.Module.register_buffer...)."""

    def __init__(self, name, impl):
        self.name, self.impl = name, impl

    def bind(self, inst):
        return ExtBound(self, inst)


class ExtBound:
    def __init__(self, meth, inst):
        self.meth, self.inst = meth, inst


class ExtClassMethod:
    """Function.apply-like: looked up on the class."""

    def __init__(self, name, impl):
        self.name, self.impl = name, impl

    def bind_class(self, cls):
        return ExtClassBound(self, cls)


class ExtClassBound:
    def __init__(self, meth, cls):
        self.meth, self.cls = meth, cls


_EXC_PARENTS = {
    'KeyError': ('LookupError',), 'IndexError': ('LookupError',),
    'UnboundLocalError': ('NameError',), 'NotImplementedError': ('RuntimeError',),
    'FileNotFoundError': ('OSError', 'IOError'), 'IOError': ('OSError',), 'OSError': ('IOError',),
    'ModuleNotFoundError': ('ImportError',), 'ZeroDivisionError': ('ArithmeticError',),
}
