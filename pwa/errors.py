"""Error and finding types shared by all engines."""


class AnalysisError(Exception):
    """The engine cannot follow the code: exit status 2, never PASS or VIOLATION."""

    def __init__(self, kind, msg=''):
        super().__init__('%s: %s' % (kind, msg))
        self.kind, self.msg = kind, msg


class PyExc(Exception):
    """A Python-level exception raised *by the analysed program* (abstractly)."""

    def __init__(self, name, msg='', loc=None):
        super().__init__('%s: %s' % (name, msg))
        self.name, self.msg, self.loc = name, msg, loc

    def __reduce__(self):
        return (PyExc, (self.name, self.msg, None))


class Finding:
    """One reportable construct.

    key = (property, rule, construct, discriminator) is semantic: never a line
    number.  ``loc`` is for the human-readable report only.
    """

    def __init__(self, rule, msg, loc=None, path=(), prop=None, construct=None, disc=None, severity='violation',
                 detail=None):
        self.rule, self.msg, self.loc, self.path = rule, msg, loc, path
        self.prop, self.construct, self.disc = prop, construct, disc
        self.severity = severity      # 'violation' | 'note'
        self.detail = detail

    def key(self):
        return '%s|%s|%s|%s' % (self.prop, self.rule, self.construct, self.disc)

    def as_dict(self):
        return {
            'key': self.key(), 'property': self.prop, 'rule': self.rule, 'construct': self.construct,
            'discriminator': self.disc, 'msg': self.msg, 'severity': self.severity,
            'file': getattr(self.loc, 'file', None), 'line': getattr(self.loc, 'line', None),
            'function': getattr(self.loc, 'func', None), 'statement': getattr(self.loc, 'text', None),
            'call_path': list(self.path) if self.path else [], 'detail': self.detail,
        }

    def __repr__(self):
        return 'Finding(%s: %s)' % (self.key(), self.msg)
