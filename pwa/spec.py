"""Frozen reference normal forms (the oracles of the translation-validation checks).

Each reference is written as an *index rule*: for every output position, the
list of (filter, tap index, input position) triples that are summed.  Taps are
formal, so a rule is independent of any wavelet's values.  The rules were
derived from the PyWavelets documentation / C sources and the NumPy ``dtcwt``
sources and calibrated numerically against the installed packages at
development time (tools/calibrate_spec.py); a check run never calls them.
"""
from .domain import AxisTable, Form, ONE, ZERO_FORM, Poly, form_add_into


# ------------------------------------------------------------ extensions
def ext_index(i, n, mode):
    """position of virtual coordinate i in a length-n signal under the PyWavelets mode, or None (zero)"""
    if 0 <= i < n:
        return i
    if mode == 'zero':
        return None
    if mode == 'symmetric':            # half-sample symmetric  ... x1 x0 | x0 x1 ... xn-1 | xn-1 ...
        p = 2 * n
        i %= p
        return i if i < n else p - 1 - i
    if mode == 'reflect':              # whole-sample symmetric  ... x2 x1 | x0 x1 ... xn-1 | xn-2 ...
        if n == 1:
            return 0
        p = 2 * n - 2
        i %= p
        return i if i < n else p - i
    if mode == 'periodic':
        return i % n
    raise ValueError(mode)


def dwt_rule(n, L, mode):
    """pywt.dwt along one axis.  Returns list over k of list of (tap j, input position)."""
    out = []
    if mode in ('periodization', 'per'):          # 'per' is the library's documented short spelling
        ne = n + (n % 2)
        for k in range(ne // 2):
            row = []
            for j in range(L):
                i = (2 * k + L // 2 - j) % ne
                if i >= n:             # the duplicated last sample of an odd-length signal
                    i = n - 1
                row.append((j, i))
            out.append(row)
        return out
    for k in range((n + L - 1) // 2):
        row = []
        for j in range(L):
            i = ext_index(2 * k + 1 - j, n, mode)
            if i is not None:
                row.append((j, i))
        out.append(row)
    return out


def idwt_rule(m, L, mode):
    """pywt.idwt along one axis for coefficient length m.
    Returns list over n of list of (tap index, coefficient position k) (same for both bands)."""
    out = []
    if mode in ('periodization', 'per'):
        n_out = 2 * m
        for n in range(n_out):
            row = []
            for k in range(m):
                # every tap t with t = n - 2k + L/2 - 1 (mod 2m)
                t0 = (n - 2 * k + L // 2 - 1) % n_out
                for t in range(t0, L, n_out):
                    row.append((t, k))
            out.append(row)
        return out
    n_out = 2 * m - L + 2
    for n in range(max(n_out, 0)):
        row = []
        for k in range(m):
            t = n - 2 * k + L - 2
            if 0 <= t < L:
                row.append((t, k))
        out.append(row)
    return out


def swt_rule(n, L, level):
    """pywt.swt level `level` (1-based) along one axis: periodic, filters dilated by 2^(level-1)."""
    d = 2 ** (level - 1)
    out = []
    for k in range(n):
        row = []
        for j in range(L):
            i = (k + d * (L // 2) - d * j) % n
            row.append((j, i))
        out.append(row)
    return out


# ------------------------------------------------- applying a rule to a table
def apply_rule(table, rule, role):
    """new table: out[k] = sum over (j, i) in rule[k] of role[j] * table[i]"""
    forms = []
    for row in rule:
        d = {}
        for j, i in row:
            f = table.forms[i]
            if not f.is_zero():
                form_add_into(d, f, Poly.sym(role, j))
        forms.append(Form(d))
    return AxisTable(table.base_axis, forms)


def crop_table(table, n):
    return AxisTable(table.base_axis, table.forms[:n])


# ===================================================================== DTCWT
# Reference: dtcwt 0.14.0, dtcwt/numpy/lowlevel.py and transform2d.py.  Rules give, for every output
# position, the list of (filter tag, tap index, input position).

def _reflect_half(i, n):
    """dtcwt.utils.reflect(i, -0.5, n-0.5): half-sample symmetric extension"""
    p = 2 * n
    i %= p
    return i if i < n else p - 1 - i


def colfilter_rule(n, m):
    """dtcwt colfilter: xe = reflect(arange(-m2, n+m2)), true convolution, 'valid'.  -> rows of (tap, pos)"""
    m2 = m // 2
    xe = [_reflect_half(i, n) for i in range(-m2, n + m2)]
    out = []
    for k in range(len(xe) - m + 1):
        out.append([(j, xe[k + m - 1 - j]) for j in range(m)])
    return out


def coldfilt_rule(n, m, positive):
    """dtcwt coldfilt(X, ha, hb) for n rows (multiple of 4), filters of even length m.
    rows of (which, tap, pos) with which in {'a','b'} = first / second filter ARGUMENT.
    `positive`: sign of sum(ha*hb) (decides which tree lands on even output rows)."""
    if n % 4 or m % 2:
        raise ValueError('coldfilt needs n % 4 == 0 and even m')
    xe = [_reflect_half(i, n) for i in range(-m, n + m)]
    t = list(range(5, n + 2 * m - 2, 4))
    h = m // 2
    n_out = len(t) - h + 1
    ya, yb = [], []
    for k in range(n_out):
        ra, rb = [], []
        for j in range(h):
            tt = t[k + h - 1 - j]
            # hao = ha[0::2] (taps 2j), hae = ha[1::2] (taps 2j+1)
            ra.append(('a', 2 * j, xe[tt - 1]))
            ra.append(('a', 2 * j + 1, xe[tt - 3]))
            rb.append(('b', 2 * j, xe[tt]))
            rb.append(('b', 2 * j + 1, xe[tt - 2]))
        ya.append(ra)
        yb.append(rb)
    out = []
    for k in range(n_out):
        if positive:
            out += [ya[k], yb[k]]
        else:
            out += [yb[k], ya[k]]
    return out


def colifilt_rule(n, m, positive):
    """dtcwt colifilt(X, ha, hb): interpolation by two, four phases."""
    if n % 2 or m % 2:
        raise ValueError('colifilt needs even n and even m')
    m2 = m // 2
    xe = [_reflect_half(i, n) for i in range(-m2, n + m2)]
    h = m // 2
    out = [None] * (2 * n)

    def conv(idx_list, which, parity):
        # _column_convolve(X[xe[idx]], taps) with taps = h[parity::2]
        rows = []
        for k in range(len(idx_list) - h + 1):
            rows.append([(which, 2 * j + parity, xe[idx_list[k + h - 1 - j]]) for j in range(h)])
        return rows
    if m2 % 2 == 0:
        t = list(range(3, n + m, 2))
        ta, tb = (t, [x - 1 for x in t]) if positive else ([x - 1 for x in t], t)
        p0 = conv([x - 2 for x in tb], 'a', 1)      # hae
        p1 = conv([x - 2 for x in ta], 'b', 1)      # hbe
        p2 = conv(tb, 'a', 0)                        # hao
        p3 = conv(ta, 'b', 0)                        # hbo
    else:
        t = list(range(2, n + m - 1, 2))
        ta, tb = (t, [x - 1 for x in t]) if positive else ([x - 1 for x in t], t)
        p0 = conv(tb, 'a', 0)
        p1 = conv(ta, 'b', 0)
        p2 = conv(tb, 'a', 1)
        p3 = conv(ta, 'b', 1)
    if not (len(p0) == len(p1) == len(p2) == len(p3) == n // 2):
        raise ValueError('colifilt phase length %d for n=%d m=%d' % (len(p0), n, m))
    for i in range(n // 2):
        out[4 * i] = p0[i]
        out[4 * i + 1] = p1[i]
        out[4 * i + 2] = p2[i]
        out[4 * i + 3] = p3[i]
    return out


def apply_rule2(table, rule, roles):
    """like apply_rule for rules with a filter tag: roles = {'a': role, 'b': role}"""
    forms = []
    for row in rule:
        d = {}
        for which, j, i in row:
            f = table.forms[i]
            if not f.is_zero():
                form_add_into(d, f, Poly.sym(roles[which], j))
        forms.append(Form(d))
    return AxisTable(table.base_axis, forms)


def replicate_ext(table, before, after):
    """np.vstack((X[:1], X, X[-1:])) style edge replication"""
    f = table.forms
    return AxisTable(table.base_axis, [f[0]] * before + list(f) + [f[-1]] * after)
