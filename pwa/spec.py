"""Frozen reference normal forms (the oracles of the translation-validation checks).

Each reference is written as an *index rule*: for every output position, the
list of (filter, tap index, input position) triples that are summed.  Taps are
formal, so a rule is independent of any wavelet's values.  The rules were
derived from the PyWavelets documentation / C sources and the NumPy ``dtcwt``
sources and calibrated numerically against the installed packages at
development time (tools/calibrate_spec.py); a check run never calls them.
"""
from .domain import AxisTable, Form, ONE, ZERO_FORM, Poly, form_add_into


# ------------------------------------------------------------ extensions
def ext_index(i, n, mode):
    """position of virtual coordinate i in a length-n signal under the PyWavelets mode, or None (zero)"""
    if 0 <= i < n:
        return i
    if mode == 'zero':
        return None
    if mode == 'symmetric':            # half-sample symmetric  ... x1 x0 | x0 x1 ... xn-1 | xn-1 ...
        p = 2 * n
        i %= p
        return i if i < n else p - 1 - i
    if mode == 'reflect':              # whole-sample symmetric  ... x2 x1 | x0 x1 ... xn-1 | xn-2 ...
        if n == 1:
            return 0
        p = 2 * n - 2
        i %= p
        return i if i < n else p - i
    if mode == 'periodic':
        return i % n
    raise ValueError(mode)


def dwt_rule(n, L, mode):
    """pywt.dwt along one axis.  Returns list over k of list of (tap j, input position)."""
    out = []
    if mode == 'periodization':
        ne = n + (n % 2)
        for k in range(ne // 2):
            row = []
            for j in range(L):
                i = (2 * k + L // 2 - j) % ne
                if i >= n:             # the duplicated last sample of an odd-length signal
                    i = n - 1
                row.append((j, i))
            out.append(row)
        return out
    for k in range((n + L - 1) // 2):
        row = []
        for j in range(L):
            i = ext_index(2 * k + 1 - j, n, mode)
            if i is not None:
                row.append((j, i))
        out.append(row)
    return out


def idwt_rule(m, L, mode):
    """pywt.idwt along one axis for coefficient length m.
    Returns list over n of list of (tap index, coefficient position k) (same for both bands)."""
    out = []
    if mode == 'periodization':
        n_out = 2 * m
        for n in range(n_out):
            row = []
            for k in range(m):
                # every tap t with t = n - 2k + L/2 - 1 (mod 2m)
                t0 = (n - 2 * k + L // 2 - 1) % n_out
                for t in range(t0, L, n_out):
                    row.append((t, k))
            out.append(row)
        return out
    n_out = 2 * m - L + 2
    for n in range(max(n_out, 0)):
        row = []
        for k in range(m):
            t = n - 2 * k + L - 2
            if 0 <= t < L:
                row.append((t, k))
        out.append(row)
    return out


def swt_rule(n, L, level):
    """pywt.swt level `level` (1-based) along one axis: periodic, filters dilated by 2^(level-1)."""
    d = 2 ** (level - 1)
    out = []
    for k in range(n):
        row = []
        for j in range(L):
            i = (k + d * (L // 2) - d * j) % n
            row.append((j, i))
        out.append(row)
    return out


# ------------------------------------------------- applying a rule to a table
def apply_rule(table, rule, role):
    """new table: out[k] = sum over (j, i) in rule[k] of role[j] * table[i]"""
    forms = []
    for row in rule:
        d = {}
        for j, i in row:
            f = table.forms[i]
            if not f.is_zero():
                form_add_into(d, f, Poly.sym(role, j))
        forms.append(Form(d))
    return AxisTable(table.base_axis, forms)


def crop_table(table, n):
    return AxisTable(table.base_axis, table.forms[:n])
