"""C06 - DTCWT back-propagation is the exact adjoint."""
from ..run import Result
from . import dtlib
from .common import run_items
from .c03 import ASSUME


def configs(ctx):
    items = []
    pairs = [(b, q) for b in dtlib.BIORT for q in dtlib.QSHIFT]
    if ctx.quick:
        pairs = [('near_sym_a', 'qshift_a'), ('legall', 'qshift_06'), ('antonini', 'qshift_b'),
                 ('near_sym_b', 'qshift_c'), ('near_sym_a', 'qshift_d')]
    lay = [(2, -1), (1, 3), (4, 0)] if ctx.quick else [(2, -1), (1, 3), (4, 0), (0, 5), (5, 2), (-3, -1)]
    for (b, q) in pairs:
        for (H, W) in ((8, 12), (6, 10)) + (((12, 16), (10, 14), (16, 8), (4, 4)) if not ctx.quick else ()):
            for fn in ('FWD_J1', 'FWD_J2PLUS'):
                for variant in ('plain', 'skip'):
                    for (o, r) in (lay if (b, q) == pairs[0] else lay[:1]):
                        items.append((fn, b, q, H, W, o, r, variant, 1))
            for fn in ('INV_J1', 'INV_J2PLUS'):
                for mask in (1, 2, 3):
                    for (o, r) in (lay if (b, q) == pairs[0] else lay[:1]):
                        items.append((fn, b, q, H, W, o, r, 'plain', mask))
                items.append((fn, b, q, H, W, 2, -1, 'nohigh', 1))
    # the zero-padding mode of the level-1 stage (used by the scattering layers): plain, skipped and absent bandpass
    for (b, q) in pairs[:2] if ctx.quick else pairs[:6]:
        for (H, W) in ((8, 12), (6, 10)):
            for variant in ('plain', 'skip'):
                items.append(('FWD_J1', b, q, H, W, 2, -1, variant, 1, 'zero'))
                items.append(('FWD_J2PLUS', b, q, H, W, 2, -1, variant, 1, 'zero'))
            for mask in (1, 3):
                items.append(('INV_J1', b, q, H, W, 2, -1, 'plain', mask, 'zero'))
            items.append(('INV_J1', b, q, H, W, 2, -1, 'nohigh', 1, 'zero'))
            items.append(('INV_J2PLUS', b, q, H, W, 2, -1, 'plain', 3, 'zero'))
    return items


def check(ctx):
    items = configs(ctx)
    findings, cmp_, diff, samples, counts = run_items(ctx, 'C06', [(dtlib.w_dt_adj, items)], min_cmp=40)
    per = {}
    for i in items:
        per[i[0]] = per.get(i[0], 0) + 1
    cov = {'obligations': cmp_, 'discharged': cmp_ - diff, 'samples': samples or [{'note': 'none'}],
           'per_function': per,
           'checker_cmd': '/venv/bin/python -m pwa check C06 --tier %s' % ctx.tier,
           'trusted_base': ['pwa/ops.py primitive table', 'table symmetries (level-1 filters symmetric, tree b = '
                            'time reverse of tree a) discharged on every shipped table by C18'],
           'explanation': 'one obligation = (Function, filter pair, size incl. a non-multiple-of-4 one, axis layout, '
                          'skipped / absent bandpass variant, subset of inputs requiring grad): the Function is '
                          're-run on symbolic inputs with the argument binding of the module call site, its '
                          'hand-written backward is interpreted on symbolic cotangents and every required gradient '
                          'must equal the transpose of the forward operator after identifying taps that the table '
                          'identities make equal (h[i] = h[L-1-i] at level 1, hb[i] = ha[L-1-i] at levels >= 2).'}
    return Result('other', cov, findings, assumptions=ASSUME)
