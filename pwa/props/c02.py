"""C02 - DWT synthesis inverts analysis (perfect reconstruction on the original extent)."""
from ..run import Result
from . import dwtlib
from .common import run_items
from .c01 import ASSUME


def wavelets_by_len(ctx):
    import pywt
    by = {}
    for n in pywt.wavelist(kind='discrete'):
        by.setdefault(pywt.Wavelet(n).dec_len, []).append(n)
    if ctx.quick:
        by = {L: v[:2] + ([x for x in v if x.startswith(('bior', 'rbio'))][:1]) for L, v in by.items()}
    return by


def configs(ctx):
    by = wavelets_by_len(ctx)
    items = []
    lens = [2, 4, 6, 8, 10, 12, 16, 20] if ctx.quick else sorted(by)
    for mode in dwtlib.MODES5:
        for L in lens:
            if L not in by:
                continue
            wl = tuple(sorted(set(by[L])))
            J = 3 if L <= 4 else (2 if L <= 8 else 1)
            n1 = sorted({2, 3, 5, L - 1 if L > 3 else 2, L, L + 1, 2 * L + 1, 2 * L + 6, 31, 32})
            if L > 40:
                n1 = sorted({3, L - 1, L + 1, 2 * L + 1})
            for N in n1:
                items.append((1, mode, L, N, J, wl))
            if L <= 12:
                for hw in ((5, 8), (L + 1, 2 * L), (9, 9), (2, 7)):
                    items.append((2, mode, L, hw, min(J, 2), wl[:3]))
    # one wavelet per axis (4-filter form): equal and different filter lengths
    for mode in dwtlib.MODES5:
        for (wc, wr) in (('db4', 'sym4'), ('db2', 'db3'), ('bior2.2', 'db3'), ('db1', 'db2')):
            import pywt
            Lc, Lr = pywt.Wavelet(wc).dec_len, pywt.Wavelet(wr).dec_len
            for hw in ((2 * Lc + 4, 2 * Lr + 7), (3 * Lc + 1, 3 * Lr)):
                items.append((4, mode, (Lc, Lr), hw, 2 if max(Lc, Lr) <= 6 else 1, ((wc, wr),)))
    # both modules built without a mode argument: analysis and synthesis must rely on the same default
    for L in (4, 6):
        if L in by:
            wl = tuple(sorted(set(by[L])))
            for N in (11, 16, 5):
                items.append((1, 'default', L, N, 2, wl))
            items.append((2, 'default', L, (9, 12), 2, wl[:3]))
    return items, by


def check(ctx):
    items, by = configs(ctx)
    findings, cmp_, diff, samples, counts = run_items(ctx, 'C02', [(dwtlib.w_compose, items)], min_cmp=100)
    used = sorted({w if isinstance(w, str) else '/'.join(w) for it in items for w in it[5]})
    cov = {'obligations': cmp_, 'discharged': cmp_ - diff, 'samples': samples or [{'note': 'none'}],
           'wavelets': len(used), 'configurations': len(items),
           'checker_cmd': '/venv/bin/python -m pwa check C02 --tier %s' % ctx.tier,
           'trusted_base': ['pwa/ops.py primitive table', 'PyWavelets filter tables (read as data)'],
           'explanation': 'the inverse module is interpreted on the abstract output of the forward module; the '
                          'result is a polynomial operator in the formal taps (all inputs at once); the obligations '
                          'are (i) extent: output size N or N+1 (odd N) per axis, (ii) for every PyWavelets wavelet '
                          'of that filter length, the operator evaluated at the wavelet\'s table values equals the '
                          'identity on the original extent up to max(1e-9, 1.5x the error of PyWavelets\' own '
                          'operators) - the latter clause is what the property asks for dmey. Together with C01/C10 '
                          '(operator equality with PyWavelets) this decides S*A = I for all inputs.'}
    return Result('other', cov, findings, assumptions=ASSUME)
