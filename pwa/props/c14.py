"""C14 - separate row and column filters act on the axis they are named for."""
from ..run import Result
from . import dwtlib
from .common import run_items
from .c01 import ASSUME


def configs(ctx):
    fwd, inv, sib = [], [], []
    pairs = [(2, 4), (4, 2), (4, 8), (8, 6), (6, 6)] if ctx.quick else \
        [(2, 4), (4, 2), (4, 8), (8, 6), (6, 6), (2, 10), (12, 4), (10, 16), (20, 8), (6, 2), (14, 2), (2, 2), (8, 8),
         (16, 6), (6, 12)]
    sizes = [(16, 20), (9, 13), (5, 12), (12, 5), (3, 3)] if ctx.quick else \
        [(16, 20), (9, 13), (5, 12), (12, 5), (3, 3), (2, 31), (24, 7), (17, 17), (8, 8), (33, 6), (10, 10), (21, 29)]
    for mode in dwtlib.MODES5:
        for (Lc, Lr) in pairs:
            for (H, W) in sizes:
                J = 2 if max(Lc, Lr) <= 8 else 1
                fwd.append((mode, 'tuple4', Lc, Lr, H, W, J, 1, 2))
                inv.append((mode, 'tuple4', Lc, Lr, H, W, J, 1, 2, 0))
                if J == 2 and (H, W) in sizes[:3]:
                    for mask in (1, 2, 3):          # None highpass levels with per-axis filters
                        inv.append((mode, 'tuple4', Lc, Lr, H, W, J, 1, 2, mask))
                sib.append(('afb-module', mode, 4, Lc, Lr, H, W))
                sib.append(('sfb-module', mode, 4, Lc, Lr, (H + Lc) // 2, (W + Lr) // 2))
        for L in (2, 6):
            for (H, W) in sizes[:3]:
                fwd.append((mode, 'tuple2', L, L, H, W, 2, 1, 2))
                inv.append((mode, 'tuple2', L, L, H, W, 2, 1, 2, 0))
                sib.append(('afb-module', mode, 2, L, L, H, W))
                sib.append(('sfb-module', mode, 2, L, L, (H + L) // 2, (W + L) // 2))
    return fwd, inv, sib


def check(ctx):
    fwd, inv, sib = configs(ctx)
    findings, cmp_, diff, samples, counts = run_items(
        ctx, 'C14', [(dwtlib.w_fwd2d, fwd), (dwtlib.w_inv2d, inv), (dwtlib.w_sibling, sib)], min_cmp=100)
    cov = {'obligations': cmp_, 'discharged': cmp_ - diff, 'samples': samples or [{'note': 'none'}],
           'configs': {'analysis_vs_pywt_per_axis': counts[0], 'synthesis_vs_pywt_per_axis': counts[1],
                       'module_vs_functional_bank': counts[2]},
           'checker_cmd': '/venv/bin/python -m pwa check C14 --tier %s' % ctx.tier,
           'trusted_base': ['pwa/ops.py primitive table', 'pwa/spec.py PyWavelets index rules'],
           'explanation': 'the four user filters are distinct formal symbols (user.0 .. user.3: column lowpass, '
                          'column highpass, row lowpass, row highpass) of different lengths per axis; the operator '
                          'the module denotes must apply user.0/1 along the vertical axis and user.2/3 along the '
                          'horizontal axis exactly as pywt.dwt2/idwt2 called with one wavelet per axis, and must '
                          'equal the functional lowlevel.afb2d/sfb2d given the same four filters; a 2-tuple must '
                          'use the same pair on both axes.'}
    return Result('other', cov, findings, assumptions=ASSUME)
