"""C07 - transforms are linear and act per (batch, channel) slice."""
from ..run import Result
from . import crosslib, entries
from .common import run_items
from .c01 import ASSUME


def items_for(ctx):
    return [(k, tuple(sorted(p.items()))) for k, p in entries.catalogue(ctx.quick)]


def check(ctx):
    items = items_for(ctx)
    findings, cmp_, diff, samples, counts = run_items(ctx, 'C07', [(crosslib.w_linear, items)], min_cmp=60)
    cov = {'obligations': cmp_, 'discharged': cmp_ - diff, 'samples': samples or [{'note': 'none'}],
           'entry_points': sorted({i[0] for i in items}),
           'checker_cmd': '/venv/bin/python -m pwa check C07 --tier %s' % ctx.tier,
           'trusted_base': ['pwa/ops.py primitive table: which primitives are linear in the data operand'],
           'explanation': 'every public entry point (1-D/2-D DWT modules and functional banks incl. negative dim '
                          'spellings, non-separable banks, stationary WT, DTCWT forward/inverse with options, DTCWT '
                          'low-level filters) is interpreted on symbolic inputs with (N,C) = (2,3) and (1,1). The '
                          'abstract domain can only represent linear forms: any non-linear primitive, added constant, '
                          'non-zero pad value, bias, reduction or branch on tensor contents raises a finding naming '
                          'the statement (so T(ax+by) = aT(x)+bT(y) and T(0)=0 hold structurally). Then every output '
                          'cell must read exactly the input slice with its own (n, c), all slices must carry the same '
                          'operator, and that operator must not change with N and C.'}
    return Result('other', cov, findings, assumptions=ASSUME)
