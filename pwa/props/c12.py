"""C12 - DTCWT options only re-arrange or select outputs; pyramids are prefix-consistent."""
from ..run import Result
from . import dtlib
from .common import run_items
from .c03 import ASSUME


def layouts():
    out = []
    for o in range(6):
        for r in range(6):
            if o != r:
                out.append((o, r))
    return out


def configs(ctx):
    fwd, inv, opt = [], [], []
    B, Q = 'near_sym_a', 'qshift_a'
    H, W, J = 6, 10, 2          # neither size equals 2 x 6 orientations: a confused axis cannot pass by coincidence
    sizes_l = [(H, W, J)] if ctx.quick else [(H, W, J), (10, 14, 3)]
    for (o, r) in layouts():
        spell = [(o, r), (o - 6, r - 6), (o, r - 6), (o - 6, r)]
        if ctx.quick:
            spell = [(o, r), (o - 6, r - 6)] + ([(o, r - 6), (o - 6, r)] if (o + r) % 3 == 0 else [])
        for (oo, rr) in spell:
            for (Hl, Wl, Jl) in sizes_l:
                fwd.append((B, Q, Hl, Wl, Jl, 1, 2, oo, rr, 0, 0))
                inv.append((B, Q, Hl, Wl, Jl, 1, 2, oo, rr, 0, 'none', False))
    # skip / include masks, every mask for J <= 3, against the reference and against the plain transform
    for Jm in (1, 2, 3):
        for mask in range(1, 2 ** Jm):
            fwd.append((B, Q, 10, 12, Jm, 1, 2, 2, -1, mask, 0))
            fwd.append((B, Q, 10, 12, Jm, 1, 2, 2, -1, 0, mask))
            for mode in ('symmetric', 'zero'):
                opt.append((B, Q, 10, 12, Jm, mode, 2, -1, mask, 0, 0))
                opt.append((B, Q, 10, 12, Jm, mode, 2, -1, 0, mask, 0))
        if Jm > 1:
            fwd.append((B, Q, 7, 9, Jm, 1, 2, 1, 3, 2 ** Jm - 2, 1))
    # prefix consistency: first j levels of a J-level transform = the j-level transform
    for mode in ('symmetric', 'zero'):
        for (Jl, js) in ((3, 1), (3, 2), (2, 1)):
            opt.append((B, Q, 12, 10, Jl, mode, 2, -1, 0, 0, js))
        for (o, r) in ((0, 4), (4, 1), (5, 0), (1, -1), (-3, 2)):
            opt.append((B, Q, 8, 8, 2, mode, o, r, 0, 0, 0))
        opt.append(('legall', 'qshift_06', 9, 6, 2, mode, 3, 0, 1, 2, 0))
    return fwd, inv, opt


def check(ctx):
    fwd, inv, opt = configs(ctx)
    findings, cmp_, diff, samples, counts = run_items(
        ctx, 'C12', [(dtlib.w_dt_fwd, fwd), (dtlib.w_dt_inv, inv), (dtlib.w_dt_options, opt)], min_cmp=100)
    cov = {'evaluations': cmp_, 'distinct_nontrivial': len({(i[7] % 6, i[8] % 6) for i in fwd}) + len(opt),
           'rule': 'layouts: every ordered pair of distinct axis positions (30) in positive and negative spelling, '
                   'forward compared with the reference assembly placed at those axes and inverse compared with the '
                   'reference inverse reading that layout; skip_hps / include_scale: every mask for J <= 3 against '
                   'the reference and against the plain transform in symmetric and zero mode; prefix consistency: '
                   'levels 1..j of a J-level transform against the j-level transform. A case is non-trivial if it '
                   'uses a non-default option; all are distinct configurations.',
           'samples': samples or [{'note': 'none'}], 'exhaustive_layouts': True,
           'layout_pairs_forward': counts[0], 'layout_pairs_inverse': counts[1], 'option_siblings': counts[2],
           'disagreements': diff}
    return Result('exploration', cov, findings, assumptions=ASSUME)
