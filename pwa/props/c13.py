"""C13 - the stationary WT is undecimated, shift-equivariant and equals PyWavelets swt2."""
from ..run import Result
from . import dwtlib
from .common import run_items
from .c01 import ASSUME
from .grids import lens_for


def configs(ctx):
    items = []
    lens = [2, 4, 6, 8] if ctx.quick else [2, 4, 6, 8, 10, 12, 16, 20]
    for mode in (None, 'periodization', 'periodic'):
        for L in lens:
            for J in (1, 2, 3):
                if L > 8 and J == 3:
                    continue
                if L > 12 and J == 2:
                    continue
                m = 2 ** J
                sizes = [(m, 2 * m), (2 * m, 3 * m), (4 * m, 4 * m)] if ctx.quick else \
                    [(m, 2 * m), (2 * m, 3 * m), (4 * m, 4 * m), (3 * m, m), (5 * m, 6 * m), (7 * m, 2 * m), (m, m),
                     (6 * m, 9 * m)]
                for (H, W) in sizes:
                    items.append((mode, 'name', L, L, H, W, J, 1, 2))
        items.append((mode, 'tuple4', 2, 4, 8, 16, 2, 2, 3))
        items.append((mode, 'tuple2', 4, 4, 8, 8, 2, 1, 2))
    return items


def check(ctx):
    items = configs(ctx)
    sib = [('atrous-prepared', m, nf, Lc, Lr, H, W) for m in ('periodization', 'periodic')
           for (nf, Lc, Lr) in ((2, 4, 4), (4, 4, 6), (2, 6, 6)) for (H, W) in ((8, 12), (16, 8))]
    findings, cmp_, diff, samples, counts = run_items(ctx, 'C13', [(dwtlib.w_swt, items), (dwtlib.w_sibling, sib)], min_cmp=50)
    cov = {'programs': cmp_, 'disagreements_checked': diff, 'samples': samples or [{'note': 'none'}],
           'rule': 'each program = SWTForward(J, wavelet, mode in {default, periodization, periodic}) on a symbolic '
                   '(N,C,H,W) input with H, W multiples of 2^J, compared per level and band (A,H,V,D) with the frozen '
                   'pywt.swt2 rule (periodic, filters dilated by 2^(j-1), undecimated); shapes must be (N,C,4,H,W); '
                   'every axis table must be circulant (shift-equivariance read off the operator)'}
    return Result('translation_validation', cov, findings, assumptions=ASSUME)
