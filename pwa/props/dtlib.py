"""Work functions for the DTCWT family (C03 C04 C06 C11 C12).

Reference = frozen rules of pwa.spec (calibrated against dtcwt 0.14.0) assembled exactly as
dtcwt/numpy/transform2d.py assembles its low-level filters."""
import itertools

import numpy as np

from ..harness import (Session, base_tensor, base_tensor_dims, cells_equal, describe_table_diff, one_term, ArgList)
from ..domain import AxisTable, Term, Form, DataT, Q2, ONE, ZERO_FORM, canon_cell, Base
from ..errors import AnalysisError, PyExc
from .. import spec, ops
from .dwtlib import (finding, anchor, exc_finding, compare_cells_multi, adjoint_cells, classify_adj, flatten_out,
                     check_backward, table_matrix)

D2 = 'pytorch_wavelets.dtcwt.transform2d'
TF = 'pytorch_wavelets.dtcwt.transform_funcs'
LLD = 'pytorch_wavelets.dtcwt.lowlevel'
BIORT = ('antonini', 'legall', 'near_sym_a', 'near_sym_b')
QSHIFT = ('qshift_06', 'qshift_a', 'qshift_b', 'qshift_c', 'qshift_d')
BIORT_LEN = {'antonini': (9, 7), 'legall': (5, 3), 'near_sym_a': (5, 7), 'near_sym_b': (13, 19),
             'near_sym_b_bp': (13, 19)}
RS2 = Q2(0, Q2(1).a / 2)          # 1/sqrt(2) = sqrt(2)/2


def is_user(name):
    return isinstance(name, str) and name.startswith('user:')


def user_spec(name):
    """'user:<form>:<len>,<len>...' -> (form, [lengths]); form in flat (N,), col (N,1), row (1,N), list"""
    _, form, lens = name.split(':')
    return form, [int(v) for v in lens.split(',')]


def is_tab(name):
    return isinstance(name, str) and name.startswith('tab:')


def tab_name(name):
    """'tab:<form>:<table>' = the shipped table handed in as arrays of that form; plain names pass through"""
    return name.split(':')[2] if is_tab(name) else name


def brole(name, key):
    if is_user(name):
        return ('user', key)
    return ('npz', tab_name(name), key)


_USER_KEYS = {2: {'f': ('h0o', 'h1o'), 'i': ('g0o', 'g1o')},
              1: {'f': ('h0a', 'h0b', 'h1a', 'h1b'), 'i': ('g0a', 'g0b', 'g1a', 'g1b')}}


def table_len(S, name, key):
    if is_user(name):
        form, lens = user_spec(name)
        if len(lens) == 2:
            return lens['01'.index(key[1])]
        return lens[0]
    from .. import npz
    import os
    name = tab_name(name)
    t = S.__dict__.setdefault('_tables', {})
    if name not in t:
        t[name] = npz.read_npz(os.path.join(S.repo, 'pytorch_wavelets/dtcwt/data', name + '.npz'))
    if key not in t[name]:
        raise AnalysisError('anchor-missing', 'key %s of table %s' % (key, name))
    return int(t[name][key].size)


def filt_arg(S, name, direction):
    """constructor argument for a filter set: the name itself, or (user-supplied sets, documented as 'a tuple of
    arrays') a tuple of formal filter arrays in the requested array form"""
    if not is_user(name) and not is_tab(name):
        return name
    from ..fakelibs import user_filter
    from ..domain import Poly
    from ..sym import Sym
    if is_tab(name):
        form = name.split(':')[1]
        nkeys = 1 if tab_name(name).startswith('qshift') else 2
    else:
        form, lens = user_spec(name)
        nkeys = len(lens)
    out = []
    for key in _USER_KEYS[nkeys][direction]:
        if is_tab(name):
            L = table_len(S, name, key)
            arr = np.empty((L,), dtype=object)
            for i in range(L):
                arr[i] = Poly.sym(brole(name, key), i)
            a = Sym(arr, 'np', 'float64', origin='arg')
        else:
            a = user_filter(key, table_len(S, name, key))
        if form == 'col':
            a = a.reshape(-1, 1)
        elif form == 'row':
            a = a.reshape(1, -1)
        elif form == 'list':
            a = list(a.arr)
        out.append(a)
    return tuple(out)


# ------------------------------------------------------------ reference images
class Img:
    """reference image: list of (base, bchan suffix, coef, tH, tW); the (n, c) prefix is added later"""

    def __init__(self, terms):
        self.terms = terms

    @property
    def shape(self):
        if not self.terms:
            return None
        return (len(self.terms[0][3]), len(self.terms[0][4]))

    def map_axis(self, axis, fn):
        cache = {}
        out = []
        for b, suf, c, th, tw in self.terms:
            t = th if axis == 0 else tw
            r = cache.get(id(t))
            if r is None:
                r = (fn(t), t)
                cache[id(t)] = r
            out.append((b, suf, c, r[0], tw) if axis == 0 else (b, suf, c, th, r[0]))
        return Img(out)

    def scaled(self, k):
        return Img([(b, suf, c * k, th, tw) for b, suf, c, th, tw in self.terms])

    def __add__(self, o):
        return Img(self.terms + o.terms)

    def cell(self, n, ci):
        return tuple(Term(b, (n, ci) + tuple(suf), [th, tw], c) for b, suf, c, th, tw in self.terms)


def colfilter_ref(img, axis, m, role):
    return img.map_axis(axis, lambda t: spec.apply_rule(t, spec.colfilter_rule(len(t), m), role))


def coldfilt_ref(img, axis, m, role_first, role_second, positive):
    return img.map_axis(axis, lambda t: spec.apply_rule2(t, spec.coldfilt_rule(len(t), m, positive),
                                                          {'a': role_first, 'b': role_second}))


def colifilt_ref(img, axis, m, role_first, role_second, positive):
    return img.map_axis(axis, lambda t: spec.apply_rule2(t, spec.colifilt_rule(len(t), m, positive),
                                                          {'a': role_first, 'b': role_second}))


def take(t, start, step=2):
    return AxisTable(t.base_axis, t.forms[start::step])


def q2c_ref(img):
    """reference q2c: returns ((z1 real, z1 imag), (z2 real, z2 imag)) as Img"""
    def part(ph, pw, sign=1):
        return Img([(b, suf, c * RS2 * sign, take(th, ph), take(tw, pw)) for b, suf, c, th, tw in img.terms])
    a, bq, cq, d = part(0, 0), part(0, 1), part(1, 0), part(1, 1)
    z1 = (a + part(1, 1, -1), bq + cq)
    z2 = (a + d, bq + part(1, 0, -1))
    return z1, z2


def spread(n, phase, base_axis):
    """table of length 2n with the identity at positions 2i+phase"""
    forms = [ZERO_FORM] * (2 * n)
    for i in range(n):
        forms[2 * i + phase] = Form({((), i): ONE})
    return AxisTable(base_axis, forms)


def c2q_ref(base, s1, s2, h, w):
    """reference c2q of the two complex bands in orientation slots s1, s2 of pyramid level `base`"""
    def t(slot, ri, coef, ph, pw):
        return (base, (slot, ri), RS2 * coef, spread(h, ph, (base.id, 0)), spread(w, pw, (base.id, 1)))
    return Img([
        t(s1, 0, 1, 0, 0), t(s2, 0, 1, 0, 0),        # a = (A + C)/sqrt2
        t(s1, 1, 1, 0, 1), t(s2, 1, 1, 0, 1),        # b = (B + D)/sqrt2
        t(s1, 1, 1, 1, 0), t(s2, 1, -1, 1, 0),       # c = (B - D)/sqrt2
        t(s2, 0, 1, 1, 1), t(s1, 0, -1, 1, 1),       # d = (C - A)/sqrt2
    ])


def pyramid_shapes(H, W, J):
    """reference pyramid recurrence: returns (extended input size, [lowpass size after each level],
    [highpass size per level], [padded-to-multiple-of-4 flags per level >= 2])"""
    r, c = H + H % 2, W + W % 2
    lows, highs, pads = [], [], []
    cr, cc = r, c
    for j in range(J):
        if j == 0:
            lows.append((cr, cc))
            highs.append((cr // 2, cc // 2))
            pads.append((False, False))
        else:
            pr, pc = cr % 4 != 0, cc % 4 != 0
            if pr:
                cr += 2
            if pc:
                cc += 2
            pads.append((pr, pc))
            cr, cc = cr // 2, cc // 2
            lows.append((cr, cc))
            highs.append((cr // 2, cc // 2))
    return (r, c), lows, highs, pads


def ref_forward(S, bx, H, W, biort, qshift, J, bp=False, img=None, first_level=1):
    """reference forward: returns (lowpass Img, [per level: dict slot -> (real Img, imag Img)], [scales Img]).
    `img`: start from this (already extended) image instead of the identity over bx;
    `first_level` = 2 starts directly with the q-shift levels (J counts the levels computed)."""
    if img is None:
        img = Img([(bx, (), ONE, AxisTable.identity((bx.id, 0), H), AxisTable.identity((bx.id, 1), W))])
        if H % 2:
            img = img.map_axis(0, lambda t: spec.replicate_ext(t, 0, 1))
        if W % 2:
            img = img.map_axis(1, lambda t: spec.replicate_ext(t, 0, 1))
    if first_level == 2:
        return _ref_qshift_levels(S, img, qshift, J, bp, [], [])
    levels, scales = [], []
    m0, m1 = table_len(S, biort, 'h0o'), table_len(S, biort, 'h1o')
    r0, r1 = brole(biort, 'h0o'), brole(biort, 'h1o')
    loH = colfilter_ref(img, 0, m0, r0)
    hiH = colfilter_ref(img, 0, m1, r1)
    lolo = colfilter_ref(loH, 1, m0, r0)
    lev = {}
    z1, z2 = q2c_ref(colfilter_ref(hiH, 1, m0, r0))          # H-highpass, W-lowpass: 15 / 165
    lev[0], lev[5] = z1, z2
    z1, z2 = q2c_ref(colfilter_ref(loH, 1, m1, r1))          # 75 / 105
    lev[2], lev[3] = z1, z2
    if bp:
        m2, r2 = table_len(S, biort, 'h2o'), brole(biort, 'h2o')
        z1, z2 = q2c_ref(colfilter_ref(colfilter_ref(img, 0, m2, r2), 1, m2, r2))
    else:
        z1, z2 = q2c_ref(colfilter_ref(hiH, 1, m1, r1))      # 45 / 135
    lev[1], lev[4] = z1, z2
    levels.append(lev)
    scales.append(lolo)
    return _ref_qshift_levels(S, lolo, qshift, J - 1, bp, levels, scales)


def _ref_qshift_levels(S, lolo, qshift, n_levels, bp, levels, scales):
    if n_levels <= 0:
        return lolo, levels, scales
    mq = table_len(S, qshift, 'h0a')
    q = lambda k: brole(qshift, k)
    for j in range(n_levels):
        r, c = lolo.shape
        if r % 4:
            lolo = lolo.map_axis(0, lambda t: spec.replicate_ext(t, 1, 1))
        if c % 4:
            lolo = lolo.map_axis(1, lambda t: spec.replicate_ext(t, 1, 1))
        loH = coldfilt_ref(lolo, 0, mq, q('h0b'), q('h0a'), True)
        hiH = coldfilt_ref(lolo, 0, mq, q('h1b'), q('h1a'), False)
        new_lolo = coldfilt_ref(loH, 1, mq, q('h0b'), q('h0a'), True)
        lev = {}
        z1, z2 = q2c_ref(coldfilt_ref(hiH, 1, mq, q('h0b'), q('h0a'), True))
        lev[0], lev[5] = z1, z2
        z1, z2 = q2c_ref(coldfilt_ref(loH, 1, mq, q('h1b'), q('h1a'), False))
        lev[2], lev[3] = z1, z2
        if bp:
            ba = coldfilt_ref(lolo, 0, mq, q('h2b'), q('h2a'), False)
            z1, z2 = q2c_ref(coldfilt_ref(ba, 1, mq, q('h2b'), q('h2a'), False))
        else:
            z1, z2 = q2c_ref(coldfilt_ref(hiH, 1, mq, q('h1b'), q('h1a'), False))
        lev[1], lev[4] = z1, z2
        levels.append(lev)
        lolo = new_lolo
        scales.append(lolo)
    return lolo, levels, scales


def layout_index(n, ci, slot, ri, o_dim, ri_dim):
    """index into the cells array of a 6-D subband tensor with the given layout"""
    o6, r6 = o_dim % 6, ri_dim % 6
    rest = [d for d in range(6) if d not in (o6, r6)]
    pos = {rest[0]: n, rest[1]: ci, o6: slot, r6: ri}
    return tuple(pos[d] for d in range(6) if d in pos)


def layout_dims(nb, c, h, w, o_dim, ri_dim):
    o6, r6 = o_dim % 6, ri_dim % 6
    rest = [d for d in range(6) if d not in (o6, r6)]
    dims = [None] * 6
    dims[o6] = ('E', 6)
    dims[r6] = ('E', 2)
    for d, v in zip(rest, (('E', nb), ('E', c), ('S', h), ('S', w))):
        dims[d] = v
    return dims


def compare_level(yh, lev, nb, c, o_dim, ri_dim, label):
    out = []
    for n in range(nb):
        for ci in range(c):
            for slot in range(6):
                for ri in range(2):
                    idx = layout_index(n, ci, slot, ri, o_dim, ri_dim)
                    exp = lev[slot][ri].cell(n, ci)
                    if not cells_equal(yh.cells[idx], exp):
                        pr = compare_cells_multi(yh, {idx: exp}, '%s orientation %d %s' % (label, slot, 'imag' if ri else 'real'))
                        out += pr or [('values', '%s orientation %d differs' % (label, slot))]
                        if len(out) >= 2:
                            return out
    return out


def w_dt_fwd(S, item):
    """C03 / C12: forward DTCWT vs the reference assembly.  item = (biort, qshift, H, W, J, nb, c, o_dim, ri_dim,
    skip_mask, scale_mask)"""
    biort, qshift, H, W, J, nb, c, o_dim, ri_dim, skip_mask, scale_mask = item
    res = {'cmp': 1, 'diff': 0, 'findings': [], 'sample': None}
    skip = [bool((skip_mask >> j) & 1) for j in range(J)]
    incl = [bool((scale_mask >> j) & 1) for j in range(J)]
    kw = dict(biort=filt_arg(S, biort, 'f'), qshift=filt_arg(S, qshift, 'f'), J=J, o_dim=o_dim, ri_dim=ri_dim)
    if skip_mask:
        kw['skip_hps'] = skip
    if scale_mask:
        kw['include_scale'] = incl
    construct = 'DTCWTForward.forward'
    opt = 'layout(%d,%d)' % (o_dim, ri_dim) if (o_dim, ri_dim) != (2, -1) else 'default'
    if skip_mask:
        opt += ',skip'
    if scale_mask:
        opt += ',scales'
    size_class = 'H%%4=%d,W%%4=%d' % (H % 4, W % 4)
    try:
        f = S.construct(D2, 'DTCWTForward', **kw)
    except PyExc as e:
        res['diff'] = 1
        res['findings'].append(finding('RAISES', construct, '%s:constructor-%s' % (opt, e.name), str(e)[:160],
                                       anchor=anchor(S, D2, 'DTCWTForward', '__init__')))
        return res
    bx, x = base_tensor('x', nb, c, [H, W])
    o = S.run(S.method(f, 'forward'), x)
    if o.kind != 'ok':
        res['diff'] = 1
        res['findings'].append(exc_finding(S, o, construct, '%s:%s' % (opt, size_class)))
        return res
    yl, yh = o.value
    lolo, levels, scales = ref_forward(S, bx, H, W, biort, qshift, J)
    problems = []
    (er, ec), lows, highs, pads = pyramid_shapes(H, W, J)
    if scale_mask:
        if not isinstance(yl, (list, tuple)) or len(yl) != J:
            problems.append(('structure', 'include_scale: lowpass result is not a list of %d entries' % J))
        else:
            for j in range(J):
                t = yl[j]
                if incl[j]:
                    if not isinstance(t, DataT) or list(t.shape) != [nb, c] + list(lows[j]):
                        problems.append(('shape', 'scale %d has shape %s, reference %s'
                                         % (j + 1, list(getattr(t, 'shape', [])), [nb, c] + list(lows[j]))))
                        break
                    exp = {(n, ci): scales[j].cell(n, ci) for n in range(nb) for ci in range(c)}
                    problems += compare_cells_multi(ops.as_nchw(t), exp, 'scale %d' % (j + 1))
                elif isinstance(t, DataT) and t.numel() > 1:
                    problems.append(('structure', 'scale %d was not requested but is returned' % (j + 1)))
    else:
        if not isinstance(yl, DataT) or list(yl.shape) != [nb, c] + list(lows[-1]):
            problems.append(('shape', 'lowpass has shape %s, reference %s'
                             % (list(getattr(yl, 'shape', [])), [nb, c] + list(lows[-1]))))
        else:
            exp = {(n, ci): lolo.cell(n, ci) for n in range(nb) for ci in range(c)}
            problems += compare_cells_multi(ops.as_nchw(yl), exp, 'lowpass')
    if not problems:
        if not isinstance(yh, (list, tuple)) or len(yh) != J:
            problems.append(('structure', 'highpass result is not a list of %d entries' % J))
        else:
            for j in range(J):
                t = yh[j]
                if skip[j]:
                    if not isinstance(t, DataT) or t.ndim != 0 or not t.is_zero():
                        problems.append(('structure', 'skipped level %d is not an empty tensor' % (j + 1)))
                    continue
                dims = layout_dims(nb, c, highs[j][0], highs[j][1], o_dim, ri_dim)
                if not isinstance(t, DataT) or list(t.shape) != [s for _, s in dims]:
                    problems.append(('shape', 'level %d subbands have shape %s, reference %s'
                                     % (j + 1, list(getattr(t, 'shape', [])), [s for _, s in dims])))
                    break
                if t.dims != [tuple(d) for d in dims]:
                    t = t.retag_units(dims) or t          # the typing of unit axes is a bookkeeping choice
                if t.dims != [tuple(d) for d in dims]:
                    problems.append(('layout', 'level %d: height/width axes are not where the layout puts them' % (j + 1)))
                    break
                pr = compare_level(t, levels[j], nb, c, o_dim, ri_dim, 'level %d' % (j + 1))
                if pr:
                    problems += pr
                    break
    if problems:
        res['diff'] = 1
        what, msg = problems[0]
        what = {'boundary': 'values', 'offset': 'values', 'filter': 'values'}.get(what, what)
        res['findings'].append(finding('NF', construct, '%s:%s:%s' % (opt, size_class, what),
                                       'biort=%s qshift=%s HxW=%dx%d J=%d options=%s: %s'
                                       % (biort, qshift, H, W, J, opt, msg),
                                       anchor=anchor(S, D2, 'DTCWTForward', 'forward'),
                                       detail={'config': list(item), 'all': problems[:4]}))
    else:
        res['sample'] = {'config': dict(biort=biort, qshift=qshift, H=H, W=W, J=J, o_dim=o_dim, ri_dim=ri_dim,
                                        skip=skip_mask, scales=scale_mask),
                         'lowpass': list(lows[-1]), 'highpasses': [list(h) for h in highs]}
    for fi in S.take_findings():
        res['findings'].append(fi.as_dict())
    return res


# ---------------------------------------------------------------- inverse
def ref_inverse(S, bl, bhs, H, W, biort, qshift, J, low_present=True, bp=False):
    """reference inverse on arbitrary pyramid bases; bhs[j] is a Base or None (absent = zeros of the right shape)"""
    (er, ec), lows, highs, pads = pyramid_shapes(H, W, J)
    if low_present:
        Z = Img([(bl, (), ONE, AxisTable.identity((bl.id, 0), lows[-1][0]), AxisTable.identity((bl.id, 1), lows[-1][1]))])
    else:
        Z = Img([])
    mq = table_len(S, qshift, 'g0a')
    q = lambda k: brole(qshift, k)
    for j in range(J - 1, 0, -1):
        h, w = highs[j]
        parts_lo, parts_hi = [], []
        y1 = colifilt_ref(Z, 0, mq, q('g0b'), q('g0a'), True)
        y2 = Img([])
        if bhs[j] is not None:
            lh = c2q_ref(bhs[j], 0, 5, h, w)
            hl = c2q_ref(bhs[j], 2, 3, h, w)
            hh = c2q_ref(bhs[j], 1, 4, h, w)
            y1 = y1 + colifilt_ref(lh, 0, mq, q('g1b'), q('g1a'), False)
            y2 = colifilt_ref(hl, 0, mq, q('g0b'), q('g0a'), True) + colifilt_ref(hh, 0, mq, q('g1b'), q('g1a'), False)
        Z = colifilt_ref(y1, 1, mq, q('g0b'), q('g0a'), True) + colifilt_ref(y2, 1, mq, q('g1b'), q('g1a'), False)
        # crop against the next finer level (size of its lowpass input = lows[j-1])
        tr, tc = lows[j - 1]
        cr, cc = 2 * lows[j][0], 2 * lows[j][1]
        if cr != tr:
            Z = Z.map_axis(0, lambda t: AxisTable(t.base_axis, t.forms[1:-1]))
        if cc != tc:
            Z = Z.map_axis(1, lambda t: AxisTable(t.base_axis, t.forms[1:-1]))
    m0, m1 = table_len(S, biort, 'g0o'), table_len(S, biort, 'g1o')
    r0, r1 = brole(biort, 'g0o'), brole(biort, 'g1o')
    y1 = colfilter_ref(Z, 0, m0, r0)
    y2 = Img([])
    if bhs[0] is not None:
        h, w = highs[0]
        lh = c2q_ref(bhs[0], 0, 5, h, w)
        hl = c2q_ref(bhs[0], 2, 3, h, w)
        hh = c2q_ref(bhs[0], 1, 4, h, w)
        y1 = y1 + colfilter_ref(lh, 0, m1, r1)
        y2 = colfilter_ref(hl, 0, m0, r0) + colfilter_ref(hh, 0, m1, r1)
    Z = colfilter_ref(y1, 1, m0, r0) + colfilter_ref(y2, 1, m1, r1)
    return Z, (er, ec)


def pyramid_bases(nb, c, H, W, J, o_dim=2, ri_dim=-1):
    (er, ec), lows, highs, pads = pyramid_shapes(H, W, J)
    bl, yl = base_tensor('yl', nb, c, list(lows[-1]))
    hs = []
    for j in range(J):
        dims = layout_dims(nb, c, highs[j][0], highs[j][1], o_dim, ri_dim)
        hs.append(base_tensor_dims('yh%d' % (j + 1), dims))
    return (bl, yl), hs


def relayout_cell(cell, o_dim, ri_dim):
    """reference terms use bchan (n, c, slot, ri); map to the base's own index order"""
    if (o_dim % 6, ri_dim % 6) == (2, 5):
        return cell
    out = []
    for t in cell:
        if len(t.bchan) == 4:
            n, ci, slot, ri = t.bchan
            out.append(Term(t.base, layout_index(n, ci, slot, ri, o_dim, ri_dim), t.tables, t.coef))
        else:
            out.append(t)
    return tuple(out)


def w_dt_inv(S, item):
    """C11: inverse DTCWT on arbitrary pyramids; absent (None / 0-dim) levels.
    item = (biort, qshift, H, W, J, nb, c, o_dim, ri_dim, absent_mask, absent_kind, low_absent)"""
    biort, qshift, H, W, J, nb, c, o_dim, ri_dim, absent_mask, absent_kind, low_absent = item[:12]
    mode = item[12] if len(item) > 12 else 'symmetric'
    res = {'cmp': 1, 'diff': 0, 'findings': [], 'sample': None}
    kw = {} if mode == 'symmetric' else {'mode': mode}
    g = S.construct(D2, 'DTCWTInverse', biort=filt_arg(S, biort, 'i'), qshift=filt_arg(S, qshift, 'i'), o_dim=o_dim,
                    ri_dim=ri_dim, **kw)
    (bl, yl), hs = pyramid_bases(nb, c, H, W, J, o_dim, ri_dim)
    present = [not (absent_mask >> j) & 1 for j in range(J)]

    def absent():
        if absent_kind == 'none':
            return None
        from .. import ops
        return ops.zeros([], 'in')
    highs = ArgList([h[1] if p else absent() for h, p in zip(hs, present)])
    highs.label = 'highpass list'
    low = yl if not low_absent else absent()
    construct = 'DTCWTInverse.forward' + ('[absent level]' if (absent_mask or low_absent) else '')
    opt = 'layout(%d,%d)' % (o_dim, ri_dim) if (o_dim, ri_dim) != (2, -1) else 'default'
    size_class = 'H%%4=%d,W%%4=%d' % (H % 4, W % 4)
    if absent_mask or low_absent:
        # key by cause, not by size: an absent bandpass level directly below a level whose lowpass the forward
        # transform had to extend to a multiple of 4 is the one situation in which the crop cannot be decided
        (er, ec), lows, hsz, pads = pyramid_shapes(H, W, J)
        padded_below = any((pads[j + 1][0] or pads[j + 1][1]) for j in range(J - 1) if not present[j])
        size_class = absent_kind + (',absent-under-padded-level' if padded_below else ',regular')
    o = S.run(S.method(g, 'forward'), (low, highs))
    if o.kind != 'ok':
        res['diff'] = 1
        res['findings'].append(exc_finding(S, o, construct, '%s:%s' % (opt, size_class)))
        return res
    y = o.value
    if mode != 'symmetric':
        # no external reference for the other padding modes: absent entries must equal explicit zeros of the right
        # shape given to the same module
        from .. import ops as _ops
        zl = yl if not low_absent else _ops.retag_dims(_ops.zeros(yl.shape, 'in'), yl.dims)
        zh = ArgList([h[1] if p else _ops.retag_dims(_ops.zeros(h[1].shape, 'in'), h[1].dims)
                      for h, p in zip(hs, present)])
        o0 = S.run(S.method(g, 'forward'), (zl, zh))
        problems = []
        if o0.kind != 'ok':
            problems.append(('raises', 'the same call with explicit zeros raises %s' % getattr(o0.exc, 'name', o0.exc)))
        else:
            pr = tensors_same(o0.value, y)
            if pr:
                problems.append(('values', 'absent entries are not treated as zeros: ' + pr))
        if problems:
            res['diff'] = 1
            what, msg = problems[0]
            res['findings'].append(finding('NF', construct, '%s,mode=%s:%s:%s' % (opt, mode, size_class, what),
                                           'biort=%s qshift=%s HxW=%dx%d J=%d mode=%s absent=%s(%s) low_absent=%s: %s'
                                           % (biort, qshift, H, W, J, mode, bin(absent_mask), absent_kind, low_absent, msg),
                                           anchor=anchor(S, D2, 'DTCWTInverse', 'forward'), detail={'config': list(item)}))
        else:
            res['sample'] = {'config': dict(biort=biort, qshift=qshift, H=H, W=W, J=J, mode=mode, absent_mask=absent_mask,
                                            absent_kind=absent_kind, low_absent=low_absent),
                             'verdict': 'equals the call with explicit zeros'}
        for fi in S.take_findings():
            res['findings'].append(fi.as_dict())
        return res
    Z, (er, ec) = ref_inverse(S, bl, [h[0] if p else None for h, p in zip(hs, present)], H, W, biort, qshift, J,
                              low_present=not low_absent)
    problems = []
    if not isinstance(y, DataT) or list(y.shape) != [nb, c, er, ec]:
        problems.append(('shape', 'result has shape %s, reference %s' % (list(getattr(y, 'shape', [])), [nb, c, er, ec])))
    else:
        exp = {(n, ci): relayout_cell(Z.cell(n, ci), o_dim, ri_dim) for n in range(nb) for ci in range(c)}
        problems += compare_cells_multi(y, exp, 'reconstruction')
    if problems:
        res['diff'] = 1
        what, msg = problems[0]
        what = {'boundary': 'values', 'offset': 'values', 'filter': 'values', 'structure': 'values'}.get(what, what)
        res['findings'].append(finding('NF', construct, '%s:%s:%s' % (opt, size_class, what),
                                       'biort=%s qshift=%s HxW=%dx%d J=%d absent=%s(%s) low_absent=%s: %s'
                                       % (biort, qshift, H, W, J, bin(absent_mask), absent_kind, low_absent, msg),
                                       anchor=anchor(S, D2, 'DTCWTInverse', 'forward'),
                                       detail={'config': list(item), 'all': problems[:4]}))
    else:
        res['sample'] = {'config': dict(biort=biort, qshift=qshift, H=H, W=W, J=J, absent_mask=absent_mask,
                                        absent_kind=absent_kind, low_absent=low_absent), 'out': [er, ec]}
    for fi in S.take_findings():
        res['findings'].append(fi.as_dict())
    return res


# ------------------------------------------------------ C12: options (sibling)
def move_to_default(t, o_dim, ri_dim):
    """re-arrange a subband tensor with layout (o_dim, ri_dim) into the default (N, C, 6, H, W, 2)"""
    from .. import ops
    o6, r6 = o_dim % 6, ri_dim % 6
    rest = [d for d in range(6) if d not in (o6, r6)]
    order = [rest[0], rest[1], o6, rest[2], rest[3], r6]
    return ops.permute(t, order)


def tensors_same(a, b):
    if not isinstance(a, DataT) or not isinstance(b, DataT):
        return 'results are %s and %s' % (type(a).__name__, type(b).__name__)
    if list(a.shape) == list(b.shape) and a.dims != b.dims:
        b = b.retag_units(a.dims) or b
    if list(a.shape) != list(b.shape) or a.dims != b.dims:
        return 'shapes / axis kinds %s and %s' % (a.dims, b.dims)
    for idx in np.ndindex(*a.cells.shape):
        if not cells_equal(a.cells[idx], b.cells[idx]):
            return 'values differ at %s' % (idx,)
    return None


def w_dt_options(S, item):
    """forward with an option set vs the plain forward (same instance of the interpreter, no reference):
    item = (biort, qshift, H, W, J, mode, o_dim, ri_dim, skip_mask, scale_mask, Jshort)"""
    biort, qshift, H, W, J, mode, o_dim, ri_dim, skip_mask, scale_mask, Jshort = item
    res = {'cmp': 1, 'diff': 0, 'findings': [], 'sample': None}
    bx, x = base_tensor('x', 1, 2, [H, W])
    base = S.construct(D2, 'DTCWTForward', biort=biort, qshift=qshift, J=J, mode=mode)
    o0 = S.run(S.method(base, 'forward'), x)
    skip = [bool((skip_mask >> j) & 1) for j in range(J)]
    incl = [bool((scale_mask >> j) & 1) for j in range(J)]
    kw = dict(biort=biort, qshift=qshift, J=(Jshort or J), mode=mode, o_dim=o_dim, ri_dim=ri_dim)
    if skip_mask:
        kw['skip_hps'] = skip
    if scale_mask:
        kw['include_scale'] = incl
    construct = 'DTCWTForward options'
    what = []
    if (o_dim, ri_dim) != (2, -1):
        what.append('layout')
    if skip_mask:
        what.append('skip_hps')
    if scale_mask:
        what.append('include_scale')
    if Jshort:
        what.append('prefix')
    disc = '%s:%s' % (mode, '+'.join(what) or 'plain')
    var = S.construct(D2, 'DTCWTForward', **kw)
    o1 = S.run(S.method(var, 'forward'), x)
    if o0.kind != 'ok' or o1.kind != 'ok':
        bad = o0 if o0.kind != 'ok' else o1
        res['diff'] = 1
        res['findings'].append(exc_finding(S, bad, construct, disc))
        return res
    yl0, yh0 = o0.value
    yl1, yh1 = o1.value
    problems = []
    Jv = Jshort or J
    # lowpass / scales
    if scale_mask:
        # intermediate lowpasses = lowpasses of the shorter transforms
        for j in range(J):
            if incl[j]:
                short = S.construct(D2, 'DTCWTForward', biort=biort, qshift=qshift, J=j + 1, mode=mode)
                os_ = S.run(S.method(short, 'forward'), x)
                if os_.kind != 'ok':
                    problems.append('the %d-level transform raises' % (j + 1))
                    break
                if not isinstance(yl1, (list, tuple)) or len(yl1) != J:
                    problems.append('include_scale result is not a list of %d' % J)
                    break
                p = tensors_same(yl1[j], os_.value[0])
                if p:
                    problems.append('scale %d is not the lowpass of the %d-level transform: %s' % (j + 1, j + 1, p))
                    break
    elif Jshort:
        short_low = None
    else:
        p = tensors_same(yl1, yl0)
        if p:
            problems.append('lowpass changes with the options: %s' % p)
    if not problems:
        if not isinstance(yh1, (list, tuple)) or len(yh1) != Jv:
            problems.append('highpass result is not a list of %d' % Jv)
        else:
            for j in range(Jv):
                if skip_mask and skip[j]:
                    t = yh1[j]
                    if not isinstance(t, DataT) or t.numel() > 1 or not t.is_zero():
                        problems.append('skipped level %d is not an empty tensor' % (j + 1))
                        break
                    continue
                t = yh1[j]
                if not isinstance(t, DataT) or t.ndim != 6:
                    problems.append('level %d is not a 6-D tensor' % (j + 1))
                    break
                try:
                    td = move_to_default(t, o_dim, ri_dim)
                except AnalysisError as e:
                    problems.append('level %d cannot be re-arranged: %s' % (j + 1, e))
                    break
                p = tensors_same(td, yh0[j])
                if p:
                    problems.append('level %d differs from the plain %d-level transform: %s' % (j + 1, J, p))
                    break
    if problems:
        res['diff'] = 1
        res['findings'].append(finding('OPT', construct, disc,
                                       'biort=%s qshift=%s HxW=%dx%d J=%d mode=%s o_dim=%d ri_dim=%d skip=%s scales=%s '
                                       'Jshort=%s: %s' % (biort, qshift, H, W, J, mode, o_dim, ri_dim, bin(skip_mask),
                                                          bin(scale_mask), Jshort, problems[0]),
                                       anchor=anchor(S, D2, 'DTCWTForward', 'forward'), detail={'config': list(item)}))
    else:
        res['sample'] = {'config': dict(H=H, W=W, J=J, mode=mode, o_dim=o_dim, ri_dim=ri_dim, skip=skip_mask,
                                        scales=scale_mask, Jshort=Jshort), 'verdict': 'options only re-arrange / select'}
    for fi in S.take_findings():
        res['findings'].append(fi.as_dict())
    return res


# ------------------------------------------------------------ C04: S*A = I
def npz_tap_values(S, names):
    from .. import npz
    import os
    vals = {}
    for nm in names:
        nm = tab_name(nm)
        t = npz.read_npz(os.path.join(S.repo, 'pytorch_wavelets/dtcwt/data', nm + '.npz'))
        for k, a in t.items():
            if a.dtype.kind == 'f':
                for i, v in enumerate(np.asarray(a, dtype=np.float64).ravel()):
                    vals[(brole(nm, k), i)] = float(v)
    return vals


def cell_matrices(cell, vals, in_sizes):
    """dict (base id, bchan) -> dense operator of that input slice"""
    out = {}
    for t in cell:
        mats = [table_matrix(tb, in_sizes[t.base.id][tb.base_axis[1]], vals) for tb in t.tables]
        m = mats[0] * float(t.coef)
        for mm in mats[1:]:
            m = np.kron(m, mm)
        key = (t.base.id, t.bchan)
        out[key] = out[key] + m if key in out else m
    return out


def w_dt_pr(S, item):
    biort, qshift, H, W, J = item[:5]
    ffwd, finv = item[5:7] if len(item) > 5 else (None, None)
    res = {'cmp': 1, 'diff': 0, 'findings': [], 'sample': None}
    as_form = lambda form, nm: 'tab:%s:%s' % (form, nm) if form else nm
    if biort == 'default':
        # both modules built without any argument: the two sides must rely on matching defaults (documented:
        # near_sym_a / qshift_a, J = 3)
        f = S.construct(D2, 'DTCWTForward')
        g = S.construct(D2, 'DTCWTInverse')
        biort, qshift = 'near_sym_a', 'qshift_a'
    else:
        f = S.construct(D2, 'DTCWTForward', biort=filt_arg(S, as_form(ffwd, biort), 'f'),
                        qshift=filt_arg(S, as_form(ffwd, qshift), 'f'), J=J)
        g = S.construct(D2, 'DTCWTInverse', biort=filt_arg(S, as_form(finv, biort), 'i'),
                        qshift=filt_arg(S, as_form(finv, qshift), 'i'))
    bx, x = base_tensor('x', 1, 1, [H, W])
    construct = 'DTCWTInverse(DTCWTForward(x))' + ('[filters as arrays]' if (ffwd or finv) else '')
    size_class = 'H%%4=%d,W%%4=%d' % (H % 4, W % 4)
    o = S.run(S.method(f, 'forward'), x)
    if o.kind != 'ok':
        res['diff'] = 1
        res['findings'].append(exc_finding(S, o, construct, size_class + ':forward'))
        return res
    yl, yh = o.value
    bl, ylb = base_tensor_dims('yl', yl.dims)
    hbs = [base_tensor_dims('yh%d' % (j + 1), t.dims) for j, t in enumerate(yh)]
    o2 = S.run(S.method(g, 'forward'), (ylb, [h[1] for h in hbs]))
    if o2.kind != 'ok':
        res['diff'] = 1
        res['findings'].append(exc_finding(S, o2, construct, size_class + ':inverse'))
        return res
    y = o2.value
    er, ec = H + H % 2, W + W % 2
    problems = []
    if list(y.shape) != [1, 1, er, ec]:
        problems.append(('extent', 'reconstruction has size %s, expected the even-extended input %s' % (list(y.shape[2:]), [er, ec])))
    else:
        vals = npz_tap_values(S, (biort, qshift))
        sizes = {bx.id: [H, W], bl.id: list(yl.shape[2:])}
        for (b, t) in hbs:
            sizes[b.id] = [s for k, s in b.dims if k == 'S']
        try:
            Smats = cell_matrices(y.cells[0, 0], vals, sizes)
            for (b, t) in [(bl, yl)] + [(hb[0], t) for hb, t in zip(hbs, yh)]:
                for idx in np.ndindex(*t.cells.shape):
                    cell_matrices(t.cells[idx], vals, sizes)
        except KeyError as e:
            # a tap that belongs to none of the configured tables (e.g. a filter bank remembered from another module)
            Smats = None
            problems.append(('foreign-filter', 'the transform pair uses filter tap %s, which is not a tap of the '
                             'configured filter sets' % (e.args[0],)))
        total = np.zeros((er * ec, H * W))
        outs = [(bl, yl)] + [(hb[0], t) for hb, t in zip(hbs, yh)]
        for (b, t) in (outs if Smats is not None else []):
            for idx in np.ndindex(*t.cells.shape):
                key = (b.id, tuple(idx))
                if key not in Smats:
                    if t.cells[idx]:
                        problems.append(('unused-band', 'the inverse ignores subband %s of %s' % (idx, b.name)))
                    continue
                A = cell_matrices(t.cells[idx], vals, sizes)
                for (bid, bch), m in A.items():
                    if bid != bx.id or bch != (0, 0):
                        problems.append(('channel', 'forward subband reads another slice'))
                    else:
                        total += Smats[key] @ m
        E = np.zeros((er * ec, H * W))
        for i in range(er):
            for j in range(ec):
                E[i * ec + j, min(i, H - 1) * W + min(j, W - 1)] = 1.0
        err = float(np.abs(total - E).max())
        if err > 1e-8 and Smats is not None:
            problems.append(('not-identity', 'max |S*A - E| = %.3g (E = identity on the image, edge replication on the '
                             'extra row/column of an odd size)' % err))
    if problems:
        res['diff'] = 1
        what, msg = problems[0]
        res['findings'].append(finding('PR', construct, '%s:%s' % (size_class, what),
                                       'biort=%s qshift=%s HxW=%dx%d J=%d: %s' % (biort, qshift, H, W, J, msg),
                                       anchor=anchor(S, D2, 'DTCWTInverse', 'forward'), detail={'config': list(item)}))
    else:
        res['sample'] = {'config': dict(biort=biort, qshift=qshift, H=H, W=W, J=J), 'max_abs_error': err}
    for fi in S.take_findings():
        res['findings'].append(fi.as_dict())
    return res


# ------------------------------------------------------------- C06: adjoints
def table_symmetries(biort, qshift, lens):
    """tap identifications justified by the table identities of C18: level-1 filters symmetric,
    tree b = time reverse of tree a (analysis and synthesis)."""
    def fn(sym):
        r, i = sym
        if r[0] != 'npz':
            return sym
        name, key = r[1], r[2]
        L = lens.get((name, key))
        if L is None:
            return sym        # a tap of a table this configuration never named: left as is, so it cannot match
        if key.endswith('o'):
            return (r, min(i, L - 1 - i))
        if key.endswith('b'):
            return (('npz', name, key[:-1] + 'a'), L - 1 - i)
        return sym
    return fn


def w_dt_adj(S, item):
    """item = (fn, biort, qshift, H, W, o_dim, ri_dim, variant, mask)
    fn in FWD_J1, FWD_J2PLUS, INV_J1, INV_J2PLUS; variant: 'plain' | 'skip' | 'nohigh'"""
    fn, biort, qshift, H, W, o_dim, ri_dim, variant, mask = item[:9]
    mode = item[9] if len(item) > 9 else 'symmetric'
    res = {'cmp': 1, 'diff': 0, 'findings': [], 'sample': None}
    S.libs.apply_log = []
    construct = '%s.backward' % fn
    disc0 = '%s%s%s' % (variant, '' if (o_dim, ri_dim) == (2, -1) else ',layout',
                        '' if mode == 'symmetric' else ',mode=' + mode)
    if fn.startswith('FWD'):
        J = 1 if fn == 'FWD_J1' else 2
        kw = dict(biort=biort, qshift=qshift, J=J, o_dim=o_dim, ri_dim=ri_dim, mode=mode)
        if variant == 'skip':
            kw['skip_hps'] = [False] * (J - 1) + [True]
        m = S.construct(D2, 'DTCWTForward', **kw)
        bx, x = base_tensor('x', 1, 2, [H, W], requires_grad=True)
        o = S.run(S.method(m, 'forward'), x)
    else:
        J = 1 if fn == 'INV_J1' else 2
        m = S.construct(D2, 'DTCWTInverse', biort=biort, qshift=qshift, o_dim=o_dim, ri_dim=ri_dim, mode=mode)
        (bl, yl), hs = pyramid_bases(1, 2, H, W, J, o_dim, ri_dim)
        yl.requires_grad = bool(mask & 1)
        for b, t in hs:
            t.requires_grad = bool(mask & 2)
        highs = [t for b, t in hs]
        if variant == 'nohigh':
            highs[-1] = None
        o = S.run(S.method(m, 'forward'), (yl, highs))
    if o.kind != 'ok':
        res['diff'] = 1
        res['findings'].append(exc_finding(S, o, construct, disc0 + ':forward'))
        return res
    recs = [r for r in S.libs.apply_log if r.cls.name == fn]
    if not recs:
        raise AnalysisError('anchor-missing', 'no %s.apply on the module path' % fn)
    rec0 = recs[0]
    # re-run the Function on fresh base tensors with the argument binding of the module's call site
    args = list(rec0.args)
    slots = [0] if fn.startswith('FWD') else [0, 1]
    needs_req = [True] if fn.startswith('FWD') else [bool(mask & 1), bool(mask & 2)]
    for i, s in enumerate(slots):
        a = args[s]
        if isinstance(a, DataT):
            b, t = base_tensor_dims('in%d' % s, a.dims, requires_grad=needs_req[i])
            args[s] = t
    S.libs.apply_log = []
    apply = S.interp.getattr(rec0.cls, 'apply')
    o = S.run(apply, *args)
    if o.kind != 'ok':
        res['diff'] = 1
        res['findings'].append(exc_finding(S, o, construct, disc0 + ':forward'))
        return res
    rec = S.libs.apply_log[-1]
    lens = {}
    for nm in (biort, qshift):
        from .. import npz
        import os
        t = npz.read_npz(os.path.join(S.repo, 'pytorch_wavelets/dtcwt/data', nm + '.npz'))
        for k, a in t.items():
            lens[(nm, k)] = int(a.size)
    canon = table_symmetries(biort, qshift, lens)
    dslots = [s for s in slots if isinstance(rec.args[s], DataT) and rec.args[s].base_of is not None]
    problems = check_backward(S, rec, dslots, rec.ctx.needs_input_grad, max(lens.get((qshift, 'h0a'), 10), 19),
                              construct, canon=canon)
    for slot, what, msg, loc in problems:
        res['diff'] = 1
        d = finding('ADJ' if what in ('boundary', 'interior', 'values', 'structure', 'length') else 'BWD',
                    construct, '%s:%s%s' % (disc0, what, '' if slot is None else ':slot%d' % slot),
                    'biort=%s qshift=%s HxW=%dx%d layout=(%d,%d) variant=%s requires_grad=%s: %s'
                    % (biort, qshift, H, W, o_dim, ri_dim, variant, bin(mask), msg),
                    anchor=anchor(S, TF, fn, 'backward'), detail={'config': list(item)})
        if loc is not None:
            d['file'], d['line'], d['function'], d['statement'] = loc.file, loc.line, loc.func, loc.text
        res['findings'].append(d)
    if not problems:
        res['sample'] = {'config': dict(fn=fn, biort=biort, qshift=qshift, H=H, W=W, o_dim=o_dim, ri_dim=ri_dim,
                                        variant=variant, requires_grad_mask=mask),
                         'verdict': 'backward == transpose(forward) modulo the table symmetries discharged by C18'}
    for fi in S.take_findings():
        res['findings'].append(fi.as_dict())
    return res
