"""C09 - scattering layers back-propagate the true gradient, finite everywhere."""
from ..run import Result
from . import scatlib
from .common import run_items
from .c03 import ASSUME


def configs(ctx):
    items = []
    biorts = ['near_sym_a', 'near_sym_b_bp'] if ctx.quick else ['near_sym_a', 'near_sym_b', 'near_sym_b_bp', 'legall']
    for b in biorts:
        for colour in (False, True):
            C = 3 if colour else 2
            for (H, W) in ((4, 6),) + (((8, 4), (6, 6), (2, 8), (10, 4)) if not ctx.quick else ()):
                items.append((1, b, H, W, C, colour))
            for (H, W) in ((8, 8),) + (((8, 16), (16, 8), (12, 8)) if not ctx.quick else ()):
                items.append((2, b, H, W, C, colour))
        # non-default padding mode: backward and forward must still be each other's derivative
        items.append((1, b, 4, 6, 2, False, 'zero'))
        items.append((1, b, 6, 4, 3, True, 'zero'))
        # odd sizes: the layer extends the input by one row / column before (or inside) the Function
        items.append((1, b, 5, 6, 2, False))
        items.append((1, b, 4, 7, 3, True))
        if not ctx.quick:
            items.append((1, b, 5, 7, 2, False, 'zero'))
            items.append((2, b, 7, 8, 2, False))
    return items


def check(ctx):
    items = configs(ctx)
    findings, cmp_, diff, samples, counts = run_items(
        ctx, 'C09', [(scatlib.w_scat_bwd, items), (scatlib.w_smoothmag, [(1,), (2,), (3,)])], min_cmp=8)
    cov = {'obligations': cmp_, 'discharged': cmp_ - diff, 'samples': samples or [{'note': 'none'}],
           'functions': ['ScatLayerj1_f', 'ScatLayerj1_rot_f', 'ScatLayerj2_f', 'ScatLayerj2_rot_f', 'SmoothMagFn'],
           'checker_cmd': '/venv/bin/python -m pwa check C09 --tier %s' % ctx.tier,
           'trusted_base': ['pwa/ops.py primitive table', 'pwa/nonlin.py normal form and symbolic differentiation',
                            'table symmetries discharged by C18'],
           'explanation': 'the forward of each scattering Function is interpreted into an expression DAG (linear stages '
                          'with formal taps, pointwise magnitude expressions with symbolic bias b, re-based '
                          'intermediate magnitudes); reverse-mode differentiation of that DAG yields the true '
                          'vector-Jacobian product as a set of paths cotangent cell -> [linear operator, pointwise '
                          'factor]* -> input slice. The hand-written backward is interpreted on a symbolic cotangent '
                          '(never executed by the test-suite) and expanded into the same kind of paths through its '
                          'own re-based intermediates (products of cotangent slices with the saved phase tensors); '
                          'after merging paths that differ in one linear stage and identifying taps equal by the '
                          'table symmetries, the two path sets must be identical: this fixes the cotangent slicing, '
                          'the saved-tensor order, the 1/4 nearest up-sampling, the order of the inverse stages and '
                          'the filters passed. Finiteness: every factor with a negative exponent or under a square '
                          'root must be provably positive / non-negative given b > 0 (sum of squares plus b^2).'}
    return Result('other', cov, findings, assumptions=ASSUME)
