"""C19 - the non-separable one-level bank equals the separable one on the modes both accept."""
from ..run import Result
from . import dwtlib
from .common import run_items
from .c01 import ASSUME
from .grids import lens_for

MODES = ('zero', 'symmetric', 'reflect', 'periodization')


def configs(ctx):
    items = []
    lens = [2, 4, 6, 8, 12] if ctx.quick else lens_for(ctx)[:14]
    for mode in MODES + (('per',) if not ctx.quick else ()):
        for L in lens:
            base = sorted({2, 3, max(2, L - 1), L, L + 1, 2 * L + 1, 2 * L + 2})
            if ctx.quick:
                base = sorted({2, 3, max(2, L - 1), L + 1, 2 * L + 2})
            for ih, H in enumerate(base):
                for iw, W in enumerate(base):
                    if ctx.quick and (ih + iw) % 2:       # by position, so that every (H, W) parity class stays in
                        continue
                    items.append(('afb-nonsep', mode, 2, L, L, H, W))
                    items.append(('sfb-nonsep', mode, 2, L, L, H, W))
        for (Lc, Lr) in ((2, 4), (6, 4), (4, 8)) + (((10, 2), (8, 12)) if not ctx.quick else ()):
            for (H, W) in ((9, 12), (8, 8), (3, 7), (2, 2), (13, 5)):
                items.append(('afb-nonsep', mode, 4, Lc, Lr, H, W))
                items.append(('sfb-nonsep', mode, 4, Lc, Lr, H, W))
                items.append(('afb-prepared', mode, 4, Lc, Lr, H, W))
                items.append(('sfb-prepared', mode, 4, Lc, Lr, H, W))
        for L in (4, 6):
            for (H, W) in ((9, 12), (8, 8), (3, 7)):
                items.append(('afb-prepared', mode, 2, L, L, H, W))
                items.append(('sfb-prepared', mode, 2, L, L, H, W))
    return items


def check(ctx):
    items = configs(ctx)
    findings, cmp_, diff, samples, counts = run_items(ctx, 'C19', [(dwtlib.w_sibling, items)], min_cmp=100)
    cov = {'programs': cmp_, 'disagreements_checked': diff, 'samples': samples or [{'note': 'none'}],
           'modes': list(MODES),
           'rule': 'each program = (afb2d_nonsep vs afb2d | sfb2d_nonsep vs sfb2d, mode, 2- or 4-filter form, '
                   'filter lengths, size; also the separable bank given filters prepared as tensors, the documented '
                   'second argument form): both functions are interpreted on the same symbolic input and formal '
                   'filters; the four subbands / the reconstruction must be identical operators'}
    return Result('translation_validation', cov, findings, assumptions=ASSUME)
