"""C01 - DWT analysis equals PyWavelets (1-D and 2-D): translation validation of the operator
denoted by DWT1DForward / DWTForward against the frozen PyWavelets index rules (pwa.spec)."""
from ..run import Result
from ..parallel import pmap
from ..errors import AnalysisError
from . import dwtlib
from .grids import lens_for, sizes1, sizes2, levels_for


def configs(ctx):
    one, two = [], []
    for mode in dwtlib.MODES5:
        for L in lens_for(ctx):
            for N in sizes1(ctx, L):
                one.append((mode, L, N, levels_for(ctx, L), 1, 2))
            for (H, W) in sizes2(ctx, L):
                two.append((mode, 'name', L, L, H, W, min(2, levels_for(ctx, L)), 1, 2))
    # slice independence with a real batch: a few configurations with N=2, C=3
    for mode in dwtlib.MODES5:
        one.append((mode, 4, 11, 2, 2, 3))
        two.append((mode, 'name', 4, 4, 7, 10, 2, 2, 3))
    # the documented short spelling 'per' of periodization
    for L in (2, 4, 8):            # sizes outside the short-signal region (known finding F8)
        for N in ((5, 8, 12, 17) if L < 8 else (17, 24, 33)):
            one.append(('per', L, N, 2 if L < 8 else 1, 1, 2))
        two.append(('per', 'name', L, L, 9, 12, 2 if L < 8 else 1, 1, 2))
    return one, two


def check(ctx):
    one, two = configs(ctx)
    r1 = pmap(dwtlib.w_fwd1d, ctx.repo, one, ctx.jobs)
    r2 = pmap(dwtlib.w_fwd2d, ctx.repo, two, ctx.jobs)
    findings = []
    cmp_ = diff = 0
    samples = []
    for r in r1 + r2:
        cmp_ += r['cmp']
        diff += r['diff']
        for f in r['findings']:
            f['property'] = 'C01'
            f['key'] = 'C01|%s|%s|%s' % (f['rule'], f['construct'], f['discriminator'])
            findings.append(f)
        if r['sample'] and len(samples) < 6:
            samples.append(r['sample'])
    if cmp_ < 100:
        raise AnalysisError('instance-count', 'only %d comparisons were made' % cmp_)
    cov = {
        'programs': cmp_, 'disagreements_checked': diff, 'samples': samples or [{'note': 'no agreeing sample'}],
        'configs_1d': len(one), 'configs_2d': len(two),
        'grid': {'modes': list(dwtlib.MODES5), 'filter_lengths': lens_for(ctx),
                 'sizes_1d': '%d..%d' % (min(c[2] for c in one), max(c[2] for c in one))},
        'rule': 'each program = one (entry point, mode, filter length, size, levels) configuration interpreted '
                'abstractly and compared cell by cell (band, batch, channel) with the frozen PyWavelets index rule',
    }
    return Result('translation_validation', cov, findings, assumptions=ASSUME)


ASSUME = [
    'real arithmetic: rounding is not addressed',
    'primitive transfer table pwa/ops.py (conv2d, conv_transpose2d, pad, cat, indexing, reshape)',
    'reference index rules pwa/spec.py, calibrated against PyWavelets 1.10.0 (tools/calibrate_spec.py)',
    'sizes and filter lengths outside the enumerated grid are not covered',
]
