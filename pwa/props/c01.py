"""C01 - DWT analysis equals PyWavelets (1-D and 2-D): translation validation of the operator
denoted by DWT1DForward / DWTForward against the frozen PyWavelets index rules (pwa.spec)."""
from ..run import Result
from ..parallel import pmap
from ..errors import AnalysisError
from . import dwtlib
from .grids import lens_for, sizes1, sizes2, levels_for


def configs(ctx):
    one, two = [], []
    for mode in dwtlib.MODES5:
        for L in lens_for(ctx):
            for N in sizes1(ctx, L):
                one.append((mode, L, N, levels_for(ctx, L), 1, 2))
            for (H, W) in sizes2(ctx, L):
                two.append((mode, 'name', L, L, H, W, min(2, levels_for(ctx, L)), 1, 2))
    # slice independence with a real batch: a few configurations with N=2, C=3
    for mode in dwtlib.MODES5:
        one.append((mode, 4, 11, 2, 2, 3))
        two.append((mode, 'name', 4, 4, 7, 10, 2, 2, 3))
    # the documented short spelling 'per' of periodization
    for L in (2, 4, 8):            # sizes outside the short-signal region (known finding F8)
        for N in ((5, 8, 12, 17) if L < 8 else (17, 24, 33)):
            one.append(('per', L, N, 2 if L < 8 else 1, 1, 2))
        two.append(('per', 'name', L, L, 9, 12, 2 if L < 8 else 1, 1, 2))
    # the other documented forms of `wave`: the pywt.Wavelet object itself and a (dec_lo, dec_hi) pair
    for mode in dwtlib.MODES5:
        for form in ('object', 'tuple2'):
            for (L, N) in ((4, 11), (6, 16)):
                one.append((mode, L, N, 2, 1, 2, form))
            two.append((mode, form, 4, 4, 9, 12, 2, 1, 2))
    return one, two


def mode_tables(ctx):
    """R-MODE: the two copies of mode_to_int / int_to_mode are mutually inverse, agree with each other, and
    reject unknown names"""
    from ..parallel import session
    S = session(ctx.repo)
    out, n = [], 0
    names = ['zero', 'symmetric', 'periodization', 'constant', 'reflect', 'replicate', 'periodic']
    tabs = {}
    for mod in ('pytorch_wavelets.dwt.lowlevel', 'pytorch_wavelets.scatternet.lowlevel'):
        m2i, i2m = S.get(mod, 'mode_to_int'), S.get(mod, 'int_to_mode')
        t = {}
        for nm in names + ['per']:
            n += 1
            o = S.run(m2i, nm)
            if o.kind != 'ok' or not isinstance(o.value, int):
                out.append(dwtlib.finding('R-MODE', mod.split('.')[-2] + '.mode_to_int', 'rejects-' + nm,
                                          'mode_to_int(%r) does not return a code' % nm, anchor=dwtlib.anchor(S, mod, 'mode_to_int')))
                continue
            t[nm] = o.value
            back = S.run(i2m, o.value)
            want = 'periodization' if nm == 'per' else nm
            if back.kind != 'ok' or back.value != want:
                out.append(dwtlib.finding('R-MODE', mod.split('.')[-2] + '.int_to_mode', 'roundtrip-' + nm,
                                          'int_to_mode(mode_to_int(%r)) = %r' % (nm, getattr(back, 'value', back.exc)),
                                          anchor=dwtlib.anchor(S, mod, 'int_to_mode')))
        n += 1
        if S.run(m2i, 'no-such-mode').kind != 'raises':
            out.append(dwtlib.finding('R-MODE', mod.split('.')[-2] + '.mode_to_int', 'accepts-unknown',
                                      'an unknown mode name is accepted', anchor=dwtlib.anchor(S, mod, 'mode_to_int')))
        if len(set(t.values())) != len(names):
            out.append(dwtlib.finding('R-MODE', mod.split('.')[-2] + '.mode_to_int', 'not-injective',
                                      'two different modes share a code: %r' % t, anchor=dwtlib.anchor(S, mod, 'mode_to_int')))
        tabs[mod] = t
    a, b = list(tabs.values())
    if a != b:
        out.append(dwtlib.finding('R-MODE', 'mode tables', 'copies-disagree',
                                  'dwt.lowlevel and scatternet.lowlevel encode modes differently: %r vs %r' % (a, b)))
    S.take_findings()
    S.take_events()
    return out, n


def check(ctx):
    one, two = configs(ctx)
    r1 = pmap(dwtlib.w_fwd1d, ctx.repo, one, ctx.jobs)
    r2 = pmap(dwtlib.w_fwd2d, ctx.repo, two, ctx.jobs)
    r2 = r2 + pmap(dwtlib.w_dim_alias, ctx.repo, [('afb1d', m, L, H, W, d) for m in dwtlib.MODES5 for (L, H, W) in ((4, 9, 12), (6, 5, 7)) for d in (-1, -2)], ctx.jobs)
    findings = []
    cmp_ = diff = 0
    samples = []
    for r in r1 + r2:
        cmp_ += r['cmp']
        diff += r['diff']
        for f in r['findings']:
            f['property'] = 'C01'
            f['key'] = 'C01|%s|%s|%s' % (f['rule'], f['construct'], f['discriminator'])
            findings.append(f)
        if r['sample'] and len(samples) < 6:
            samples.append(r['sample'])
    if cmp_ < 100:
        raise AnalysisError('instance-count', 'only %d comparisons were made' % cmp_)
    mt, n_mt = mode_tables(ctx)
    for f in mt:
        f['property'] = 'C01'
        f['key'] = 'C01|%s|%s|%s' % (f['rule'], f['construct'], f['discriminator'])
        findings.append(f)
    cov = {
        'programs': cmp_, 'disagreements_checked': diff, 'samples': samples or [{'note': 'no agreeing sample'}],
        'configs_1d': len(one), 'configs_2d': len(two), 'mode_table_obligations': n_mt,
        'grid': {'modes': list(dwtlib.MODES5), 'filter_lengths': lens_for(ctx),
                 'sizes_1d': '%d..%d' % (min(c[2] for c in one), max(c[2] for c in one))},
        'rule': 'each program = one (entry point, mode, filter length, size, levels) configuration interpreted '
                'abstractly and compared cell by cell (band, batch, channel) with the frozen PyWavelets index rule',
    }
    return Result('translation_validation', cov, findings, assumptions=ASSUME)


ASSUME = [
    'real arithmetic: rounding is not addressed',
    'primitive transfer table pwa/ops.py (conv2d, conv_transpose2d, pad, cat, indexing, reshape)',
    'reference index rules pwa/spec.py, calibrated against PyWavelets 1.10.0 (tools/calibrate_spec.py)',
    'sizes and filter lengths outside the enumerated grid are not covered',
]
