"""Catalogue of public entry points used by the cross-cutting checks (C07 linearity / per-slice action,
C15 purity, C16 dtype / strides).  One catalogue entry = (name, parameters); ``build`` turns it into a
callable plus symbolic arguments inside a Session."""
import numpy as np

from ..harness import base_tensor, base_tensor_dims, wname, ArgList, user_filter
from ..domain import DataT, Base
from ..errors import AnalysisError
from .dwtlib import T1, T2, LL, level_lengths, MODES5
from .dtlib import D2, TF, LLD, pyramid_bases, pyramid_shapes

SC = 'pytorch_wavelets.scatternet.layers'


def catalogue(quick=True):
    """list of (kind, params) covering every transform family, mode and a few sizes"""
    out = []
    for mode in MODES5:
        for (L, N, J) in ((4, 11, 2), (6, 16, 2)) + (() if quick else ((2, 7, 3), (8, 21, 1), (10, 30, 2), (4, 3, 1), (12, 17, 1))):
            out.append(('dwt1d-fwd', dict(mode=mode, L=L, N=N, J=J)))
            out.append(('dwt1d-inv', dict(mode=mode, L=L, N=N, J=J)))
        for (L, H, W, J) in ((4, 9, 12, 2), (6, 16, 10, 1)) + (() if quick else ((2, 5, 5, 2), (8, 20, 14, 2), (4, 3, 11, 1), (10, 12, 12, 1))):
            out.append(('dwt2d-fwd', dict(mode=mode, L=L, H=H, W=W, J=J)))
            out.append(('dwt2d-inv', dict(mode=mode, L=L, H=H, W=W, J=J)))
        out.append(('dwt2d-fwd', dict(mode=mode, L=4, H=9, W=12, J=2, filters='tuple4')))
        out.append(('dwt2d-inv', dict(mode=mode, L=4, H=9, W=12, J=2, filters='tuple4')))
        if mode in ('zero', 'periodization'):
            # same column filters, other row filters: exposes caches keyed on part of the filter set
            out.append(('dwt2d-fwd', dict(mode=mode, L=4, H=9, W=12, J=2, filters='tuple4b')))
            out.append(('dwt2d-inv', dict(mode=mode, L=4, H=9, W=12, J=2, filters='tuple4b')))
        out.append(('dwt2d-inv-none', dict(mode=mode, L=4, H=9, W=12, J=2)))
        out.append(('dwt1d-inv-none', dict(mode=mode, L=4, N=11, J=2)))
        for fn in ('afb2d', 'sfb2d'):
            out.append(('functional', dict(fn=fn, mode=mode, L=4, H=8, W=10, nf=4)))
        out.append(('functional-prepared', dict(fn='afb2d', mode=mode, L=4, H=8, W=10, nf=2)))
        out.append(('functional-prepared', dict(fn='sfb2d', mode=mode, L=4, H=8, W=10, nf=4)))
        for dim in (2, 3, -1, -2):
            out.append(('functional1d', dict(fn='afb1d', mode=mode, L=4, H=8, W=10, dim=dim)))
            out.append(('functional1d', dict(fn='sfb1d', mode=mode, L=4, H=8, W=10, dim=dim)))
    # tiny extents called with a batch / channel count larger than the signal: an index that lands on the wrong axis
    # then stays inside the tensor and mixes slices instead of raising
    for mode in MODES5:
        for dim in (2, 3, -1, -2):
            out.append(('functional1d', dict(fn='afb1d', mode=mode, L=4, H=4, W=4, dim=dim, tiny=True)))
            out.append(('functional1d', dict(fn='sfb1d', mode=mode, L=4, H=2, W=2, dim=dim, tiny=True)))
            out.append(('functional1d', dict(fn='sfb1d', mode=mode, L=6, H=3, W=3, dim=dim, tiny=True)))
        out.append(('dwt1d-fwd', dict(mode=mode, L=4, N=5, J=1, tiny=True)))
        out.append(('dwt1d-inv', dict(mode=mode, L=4, N=5, J=1, tiny=True)))
        out.append(('dwt2d-fwd', dict(mode=mode, L=4, H=4, W=5, J=1, tiny=True)))
        out.append(('dwt2d-inv', dict(mode=mode, L=4, H=4, W=5, J=1, tiny=True)))
    for mode in ('zero', 'symmetric', 'reflect', 'periodization'):
        for fn in ('afb2d_nonsep', 'sfb2d_nonsep'):
            out.append(('functional', dict(fn=fn, mode=mode, L=4, H=8, W=10, nf=2)))
    for mode in (None, 'periodic'):
        out.append(('swt', dict(mode=mode, L=4, H=8, W=16, J=2)))
        out.append(('functional-atrous', dict(mode=mode or 'periodization', L=4, H=8, W=8, dilation=2)))
    for (b, q, H, W, J) in (('near_sym_a', 'qshift_a', 10, 12, 3), ('legall', 'qshift_06', 7, 9, 2)) + \
            (() if quick else (('antonini', 'qshift_b', 16, 16, 2), ('near_sym_b', 'qshift_d', 8, 6, 2),
                               ('near_sym_a', 'qshift_c', 12, 20, 2), ('legall', 'qshift_a', 5, 7, 3), ('antonini', 'qshift_06', 14, 10, 2))):
        for mode in ('symmetric', 'zero'):
            out.append(('dtcwt-fwd', dict(biort=b, qshift=q, H=H, W=W, J=J, mode=mode, o_dim=2, ri_dim=-1, skip=0, scales=0)))
            out.append(('dtcwt-inv', dict(biort=b, qshift=q, H=H, W=W, J=J, mode=mode, o_dim=2, ri_dim=-1, absent=0)))
        out.append(('dtcwt-fwd', dict(biort=b, qshift=q, H=H, W=W, J=J, mode='symmetric', o_dim=1, ri_dim=3, skip=1, scales=2)))
        out.append(('dtcwt-fwd', dict(biort=b, qshift=q, H=H, W=W, J=J, mode='symmetric', o_dim=2, ri_dim=-1, skip=2 ** J - 2, scales=0)))
        out.append(('dtcwt-inv', dict(biort=b, qshift=q, H=H, W=W, J=J, mode='symmetric', o_dim=2, ri_dim=-1, absent=1)))
        out.append(('dtcwt-inv', dict(biort=b, qshift=q, H=H, W=W, J=J, mode='symmetric', o_dim=2, ri_dim=-1, absent=2,
                                      absent_kind='empty')))
    for fn in ('colfilter', 'rowfilter', 'coldfilt', 'rowdfilt', 'colifilt', 'rowifilt'):
        for hp in (False, True):
            out.append(('dtcwt-lowlevel', dict(fn=fn, H=8, W=12, highpass=hp, mode='symmetric')))
    return out


def scat_catalogue(quick=True):
    out = []
    for b in ('near_sym_a', 'near_sym_b_bp'):
        for cc in (False, True):
            out.append(('scat1', dict(biort=b, H=9, W=12, combine_colour=cc)))
            out.append(('scat2', dict(biort=b, H=12, W=16, combine_colour=cc)))
            if not quick:
                out.append(('scat1', dict(biort=b, H=6, W=6, combine_colour=cc)))
                out.append(('scat2', dict(biort=b, H=8, W=8, combine_colour=cc)))
    return out


MODULE_KINDS = ('dwt1d-fwd', 'dwt1d-inv', 'dwt1d-inv-none', 'dwt2d-fwd', 'dwt2d-inv', 'dwt2d-inv-none', 'swt',
                'dtcwt-fwd', 'dtcwt-inv', 'scat1', 'scat2')


class _Reuse:
    """Session facade whose construct() hands back an existing module instance (same-instance call histories)"""

    def __init__(self, S, module):
        self._S, self._m = S, module

    def construct(self, *a, **k):
        return self._m

    def __getattr__(self, name):
        return getattr(self._S, name)


def build(S, kind, p, nb=2, c=3, requires_grad=False, contig=True, module=None):
    """returns (callable, args tuple, inputs: list of (Base, DataT), label); with `module` the call goes to that
    already constructed instance (only for MODULE_KINDS)"""
    if module is not None:
        S = _Reuse(S, module)
    def mk(name, spatial, extra=()):
        b, t = base_tensor(name, nb, c, list(spatial), extra_e=tuple(extra), requires_grad=requires_grad)
        t.contig = contig
        return b, t
    ins = []
    if kind == 'dwt1d-fwd':
        m = S.construct(T1, 'DWT1DForward', J=p['J'], wave=wname(p['L']), mode=p['mode'])
        b, x = mk('x', [p['N']])
        return S.method(m, 'forward'), (x,), [(b, x)], 'DWT1DForward'
    if kind in ('dwt1d-inv', 'dwt1d-inv-none'):
        m = S.construct(T1, 'DWT1DInverse', wave=wname(p['L']), mode=p['mode'])
        lens = level_lengths(p['N'], p['L'], p['mode'], p['J'])
        b, yl = mk('yl', [lens[-1]])
        ins = [(b, yl)]
        hs = ArgList()
        hs.frozen = False
        for j in range(p['J']):
            if kind.endswith('none') and j == 0:
                hs.append(None)
                continue
            bh, yh = mk('yh%d' % (j + 1), [lens[j + 1]])
            ins.append((bh, yh))
            hs.append(yh)
        hs.frozen = True
        hs.label = 'highpass list'
        return S.method(m, 'forward'), ((yl, hs),), ins, 'DWT1DInverse'
    def wave2d(p):
        if p.get('filters') == 'tuple4':
            return tuple(user_filter(str(i), p['L'] + (2 if i >= 2 else 0)) for i in range(4)), p['L'], p['L'] + 2
        if p.get('filters') == 'tuple4b':
            return tuple(user_filter(str(i) if i < 2 else 'b%d' % i, p['L'] + (4 if i >= 2 else 0)) for i in range(4)), \
                p['L'], p['L'] + 4
        return wname(p['L']), p['L'], p['L']
    if kind == 'dwt2d-fwd':
        m = S.construct(T2, 'DWTForward', J=p['J'], wave=wave2d(p)[0], mode=p['mode'])
        b, x = mk('x', [p['H'], p['W']])
        return S.method(m, 'forward'), (x,), [(b, x)], 'DWTForward'
    if kind in ('dwt2d-inv', 'dwt2d-inv-none'):
        wv, Lc, Lr = wave2d(p)
        m = S.construct(T2, 'DWTInverse', wave=wv, mode=p['mode'])
        lh = level_lengths(p['H'], Lc, p['mode'], p['J'])
        lw = level_lengths(p['W'], Lr, p['mode'], p['J'])
        b, yl = mk('yl', [lh[-1], lw[-1]])
        ins = [(b, yl)]
        hs = ArgList()
        hs.frozen = False
        for j in range(p['J']):
            if kind.endswith('none') and j == 0:
                hs.append(None)
                continue
            bh, yh = mk('yh%d' % (j + 1), [lh[j + 1], lw[j + 1]], extra=(3,))
            ins.append((bh, yh))
            hs.append(yh)
        hs.frozen = True
        hs.label = 'highpass list'
        return S.method(m, 'forward'), ((yl, hs),), ins, 'DWTInverse'
    if kind == 'functional':
        fn = S.get(LL, p['fn'])
        L = p['L']
        filts = [user_filter(str(i), L + (2 if (i >= 2 and p['nf'] == 4) else 0)) for i in range(p['nf'])]
        if p['fn'].startswith('afb'):
            b, x = mk('x', [p['H'], p['W']])
            return fn, (x, filts, p['mode']), [(b, x)], p['fn']
        if p['fn'] == 'sfb2d':
            b, co = mk('coeffs', [p['H'], p['W']], extra=(4,))
            return fn, (co[:, :, 0], co[:, :, 1], co[:, :, 2], co[:, :, 3], filts, p['mode']), [(b, co)], p['fn']
        b, co = mk('coeffs', [p['H'], p['W']], extra=(4,))
        return fn, (co, filts, p['mode']), [(b, co)], p['fn']
    if kind == 'functional-prepared':
        # filters handed over as prepared tensors (the form prep_filt_* returns): the 2-filter form transposes them
        fn = S.get(LL, p['fn'])
        L = p['L']
        prep = S.get(LL, 'prep_filt_afb2d' if p['fn'] == 'afb2d' else 'prep_filt_sfb2d')
        arrs = [user_filter(str(i), L + (2 if i >= 2 else 0)) for i in range(4)]
        pf = S.interp.call(prep, arrs if p['nf'] == 4 else arrs[:2], {})
        filts = list(pf) if p['nf'] == 4 else [pf[0], pf[1]]
        if p['fn'] == 'afb2d':
            b, x = mk('x', [p['H'], p['W']])
            return fn, (x, filts, p['mode']), [(b, x)], 'afb2d[prepared]'
        b, co = mk('coeffs', [p['H'], p['W']], extra=(4,))
        return fn, (co[:, :, 0], co[:, :, 1], co[:, :, 2], co[:, :, 3], filts, p['mode']), [(b, co)], 'sfb2d[prepared]'
    if kind == 'functional1d':
        fn = S.get(LL, p['fn'])
        L = p['L']
        if p['fn'] == 'afb1d':
            b, x = mk('x', [p['H'], p['W']])
            return (lambda *a: S.interp.call(fn, list(a), {'mode': p['mode'], 'dim': p['dim']})), \
                (x, user_filter('0', L), user_filter('1', L)), [(b, x)], 'afb1d(dim=%d)' % p['dim']
        b1, lo = mk('lo', [p['H'], p['W']])
        b2, hi = mk('hi', [p['H'], p['W']])
        return (lambda *a: S.interp.call(fn, list(a), {'mode': p['mode'], 'dim': p['dim']})), \
            (lo, hi, user_filter('0', L), user_filter('1', L)), [(b1, lo), (b2, hi)], 'sfb1d(dim=%d)' % p['dim']
    if kind == 'functional-atrous':
        fn = S.get(LL, 'afb2d_atrous')
        L = p['L']
        b, x = mk('x', [p['H'], p['W']])
        filts = [user_filter(str(i), L) for i in range(2)]
        return fn, (x, filts, p['mode'], p['dilation']), [(b, x)], 'afb2d_atrous'
    if kind == 'swt':
        kw = dict(J=p['J'], wave=wname(p['L']))
        if p['mode']:
            kw['mode'] = p['mode']
        m = S.construct(T2, 'SWTForward', **kw)
        b, x = mk('x', [p['H'], p['W']])
        return S.method(m, 'forward'), (x,), [(b, x)], 'SWTForward'
    if kind == 'dtcwt-fwd':
        J = p['J']
        kw = dict(biort=p['biort'], qshift=p['qshift'], J=J, mode=p['mode'], o_dim=p['o_dim'], ri_dim=p['ri_dim'])
        if p['skip']:
            kw['skip_hps'] = [bool((p['skip'] >> j) & 1) for j in range(J)]
        if p['scales']:
            kw['include_scale'] = [bool((p['scales'] >> j) & 1) for j in range(J)]
        m = S.construct(D2, 'DTCWTForward', **kw)
        b, x = mk('x', [p['H'], p['W']])
        return S.method(m, 'forward'), (x,), [(b, x)], 'DTCWTForward'
    if kind == 'dtcwt-inv':
        m = S.construct(D2, 'DTCWTInverse', biort=p['biort'], qshift=p['qshift'], mode=p['mode'], o_dim=p['o_dim'],
                        ri_dim=p['ri_dim'])
        (bl, yl), hs = pyramid_bases(nb, c, p['H'], p['W'], p['J'], p['o_dim'], p['ri_dim'])
        yl.requires_grad = requires_grad
        yl.contig = contig
        ins = [(bl, yl)]
        lst = ArgList()
        lst.frozen = False
        for j, (bh, t) in enumerate(hs):
            if (p['absent'] >> j) & 1:
                if p.get('absent_kind') == 'empty':
                    # the 0-dim placeholder DTCWTForward(skip_hps=...) hands out for a skipped scale
                    from .. import ops
                    lst.append(ops.zeros([], 'in'))
                else:
                    lst.append(None)
                continue
            t.requires_grad = requires_grad
            t.contig = contig
            ins.append((bh, t))
            lst.append(t)
        lst.frozen = True
        lst.label = 'bandpass list'
        return S.method(m, 'forward'), ((yl, lst),), ins, 'DTCWTInverse'
    if kind == 'dtcwt-lowlevel':
        fn = S.get(LLD, p['fn'])
        m = S.construct(D2, 'DTCWTForward', biort='near_sym_a', qshift='qshift_a', J=2)
        b, x = mk('x', [p['H'], p['W']])
        if p['fn'] in ('colfilter', 'rowfilter'):
            h = S.interp.getattr(m, 'h1o' if p['highpass'] else 'h0o')
            return fn, (x, h, p['mode']), [(b, x)], p['fn']
        ha = S.interp.getattr(m, 'h1b' if p['highpass'] else 'h0b')
        hb = S.interp.getattr(m, 'h1a' if p['highpass'] else 'h0a')
        return fn, (x, ha, hb, p['highpass'], p['mode']), [(b, x)], p['fn']
    if kind in ('scat1', 'scat2'):
        from .. import nonlin
        if kind == 'scat1':
            m = S.construct(SC, 'ScatLayer', biort=p['biort'], combine_colour=p['combine_colour'],
                            magbias=nonlin.Param('b'))
        else:
            q = 'qshift_b_bp' if p['biort'] == 'near_sym_b_bp' else 'qshift_a'
            m = S.construct(SC, 'ScatLayerj2', biort=p['biort'], qshift=q, combine_colour=p['combine_colour'],
                            magbias=nonlin.Param('b'))
        b, x = mk('x', [p['H'], p['W']])
        return S.method(m, 'forward'), (x,), [(b, x)], 'ScatLayer' if kind == 'scat1' else 'ScatLayerj2'
    raise ValueError(kind)


def flatten(v):
    out = []
    if isinstance(v, DataT):
        out.append(v)
    elif isinstance(v, (list, tuple)):
        for x in v:
            out.extend(flatten(x))
    return out
