"""C03 - DTCWT analysis equals the reference dual-tree implementation."""
from ..run import Result
from . import dtlib
from .common import run_items
from .grids import stable_hash

ASSUME = [
    'real arithmetic: rounding is not addressed',
    'primitive transfer table pwa/ops.py',
    'reference rules pwa/spec.py (colfilter, coldfilt, colifilt, q2c, c2q, pyramid assembly), transcribed from '
    'dtcwt 0.14.0 and calibrated numerically by tools/calibrate_dtcwt.py',
    'interleave order: the reference decides by the sign of sum(ha*hb); the side condition on every shipped '
    'q-shift table is discharged by C18',
    'sizes outside the enumerated grid are not covered',
]


def sizes(ctx):
    if ctx.quick:
        return [(2, 2), (3, 5), (4, 6), (7, 12), (8, 8), (10, 13), (16, 16), (17, 22), (20, 9), (24, 36)]
    out = [(h, w) for h in (2, 3, 4, 5, 6, 7, 8, 9, 11, 12, 13, 16, 17, 18, 20, 24, 31, 36)
           for w in (2, 3, 4, 6, 7, 8, 10, 12, 13, 16, 22, 40)]
    # every (H mod 4, W mod 4) class several times, tiny and larger sizes, both aspect ratios: 56 sizes
    return [s for i, s in enumerate(out) if (i % 5 == 0) or s[0] == s[1] or (min(s) <= 3 and i % 2 == 0)]


def configs(ctx):
    items = []
    pairs = [(b, q) for b in dtlib.BIORT for q in dtlib.QSHIFT]
    for (b, q) in pairs:
        for i, (H, W) in enumerate(sizes(ctx)):
            if ctx.quick and (stable_hash(b, q) + i) % 4 and (b, q) != ('near_sym_a', 'qshift_a'):
                continue
            long_f = q in ('qshift_c', 'qshift_d') or b == 'near_sym_b'
            J = 3 if not long_f else 2
            if not ctx.quick and H * W <= 200 and not long_f and (i % 3 == 0):
                J = 4
            if not ctx.quick and (stable_hash(b, q, 't') + i) % 2 and (b, q) != ('near_sym_a', 'qshift_a'):
                continue
            items.append((b, q, H, W, J, 1, 2, 2, -1, 0, 0))
    items.append(('near_sym_a', 'qshift_a', 6, 10, 2, 2, 3, 2, -1, 0, 0))
    items.append(('legall', 'qshift_06', 12, 9, 1, 1, 1, 2, -1, 0, 0))
    items += user_items(ctx)
    # layouts with the real/imaginary axis well below the orientation axis (all 30 pairs are decided by C12)
    for (o, r) in ((3, 1), (4, 1), (-2, 1)):
        items.append(('near_sym_a', 'qshift_a', 6, 10, 2, 1, 2, o, r, 0, 0))
    return items


def user_items(ctx, inverse=False):
    """filter sets handed in as arrays ('biort (str or tuple of arrays)'): every array form the preparation code
    accepts -- flat (N,), column (N,1), row (1,N), python list -- with formal taps"""
    out = []
    for form in ('flat', 'col', 'row', 'list'):
        ub, uq = 'user:%s:5,7' % form, 'user:%s:10' % form
        for (b, q, H, W, J) in ((ub, uq, 12, 16, 3), (ub, 'qshift_a', 7, 10, 2), ('near_sym_a', uq, 10, 13, 2),
                                ('user:%s:13,19' % form, 'user:%s:14' % form, 16, 12, 2)):
            if ctx.quick and form in ('flat', 'list') and J == 2 and b != ub:
                continue
            out.append((b, q, H, W, J, 1, 2, 2, -1, 0, 0) if not inverse else
                       (b, q, H, W, J, 1, 2, 2, -1, 0, 'none', False))
    return out


def check(ctx):
    items = configs(ctx)
    findings, cmp_, diff, samples, counts = run_items(ctx, 'C03', [(dtlib.w_dt_fwd, items)], min_cmp=40)
    cov = {'programs': cmp_, 'disagreements_checked': diff, 'samples': samples or [{'note': 'none'}],
           'filter_pairs': len({(i[0], i[1]) for i in items}), 'sizes': len({(i[2], i[3]) for i in items}),
           'rule': 'each program = DTCWTForward(biort, qshift, J) on a symbolic (N,C,H,W) input; the lowpass and, per '
                   'level, all 6 orientations x (real, imag) are compared as operators with the reference assembly '
                   '(odd-size replication, multiple-of-4 extension, colfilter / coldfilt with (b,a) argument order, '
                   'q2c, orientation slots); filter taps are formal symbols tagged with their table key'}
    return Result('translation_validation', cov, findings, assumptions=ASSUME)
