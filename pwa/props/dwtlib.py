"""Work functions for the DWT family (C01 C02 C05 C10 C13 C14 C17 C19).

Each work function interprets one configuration and compares the abstract
result with the frozen reference (pwa.spec) or with a sibling implementation.
It returns a dict {cmp, diff, findings, sample}; findings are plain dicts
without a property id (the property driver adds it).
"""
import itertools

import numpy as np

from ..harness import (Session, base_tensor, base_tensor_dims, wname, cells_equal, expected_cell,
                       describe_table_diff, one_term, ArgList, user_filter)
from ..domain import AxisTable, Term, Form, DataT, Q2, ONE, canon_cell, Base
from ..errors import AnalysisError, PyExc
from .. import spec

T1 = 'pytorch_wavelets.dwt.transform1d'
T2 = 'pytorch_wavelets.dwt.transform2d'
LL = 'pytorch_wavelets.dwt.lowlevel'
MODES5 = ('zero', 'symmetric', 'reflect', 'periodic', 'periodization')


def role(L, which):
    return ('pywt', wname(L), which)


def finding(rule, construct, disc, msg, anchor=None, detail=None, path=None):
    d = {'rule': rule, 'construct': construct, 'discriminator': disc, 'msg': msg, 'severity': 'violation',
         'file': None, 'line': None, 'function': None, 'statement': None, 'call_path': list(path or []),
         'detail': detail}
    if anchor:
        d['file'], d['line'], d['function'] = anchor
    return d


def anchor(S, dotted, name, sub=None):
    """(file, line, function) of a repository definition, for reports"""
    import os
    m = S.module(dotted)
    obj = m.ns.get(name)
    node = None
    q = name
    if obj is not None and hasattr(obj, 'node'):
        node = obj.node
    elif obj is not None and hasattr(obj, 'ns') and sub:
        f = obj.ns.get(sub)
        f = getattr(f, 'func', f)
        node = getattr(f, 'node', None)
        q = name + '.' + sub
    if node is None:
        raise AnalysisError('anchor-missing', '%s.%s' % (dotted, q))
    return (os.path.relpath(m.path, S.repo), node.lineno, q)


def exc_finding(S, o, construct, disc_prefix):
    """finding for a call that raised / left the linear fragment"""
    e = o.exc
    loc = getattr(e, 'loc', None)
    if o.kind == 'violation':
        d = finding(e.rule, construct, '%s:%s' % (disc_prefix, e.rule), e.msg, path=getattr(e, 'path', None))
    else:
        d = finding('RAISES', construct, '%s:raises-%s' % (disc_prefix, e.name),
                    'the call raises %s: %s' % (e.name, e.msg[:160]))
    if loc is not None:
        d['file'], d['line'], d['function'], d['statement'] = loc.file, loc.line, loc.func, loc.text
    return d


def level_lengths(n, L, mode, J):
    out = [n]
    for _ in range(J):
        out.append(len(spec.dwt_rule(out[-1], L, mode)))
    return out


def size_cond(lens_in, L, mode):
    """coarse size class used in finding keys"""
    if mode in ('periodization', 'per'):
        return 'Ne<L' if any((n + n % 2) < L for n in lens_in) else 'Ne>=L'
    return 'N<L' if any(n < L for n in lens_in) else 'N>=L'


def compare_cells(actual, exp_cells, label):
    """actual: DataT; exp_cells: dict e-index -> tuple(Term).  Returns list of (what, msg)."""
    out = []
    if actual.cells.shape != tuple(np.shape(np.empty(tuple(max(i[k] for i in exp_cells) + 1
                                                            for k in range(len(next(iter(exp_cells)))))))):
        return [('shape', '%s: enumerated shape %s differs from the reference' % (label, actual.cells.shape))]
    for idx, exp in exp_cells.items():
        act = actual.cells[idx]
        if cells_equal(act, exp):
            continue
        a1, e1 = one_term(act), one_term(exp)
        if a1 is not None and e1 is not None and a1[0] == e1[0] and a1[1] == e1[1] and len(a1[2]) == len(e1[2]):
            for ax, (ta, te) in enumerate(zip(a1[2], e1[2])):
                if ta != te:
                    what, msg = describe_table_diff(ta, te)
                    out.append((what, '%s cell %s axis %d: %s' % (label, idx, ax, msg)))
                    break
            else:
                out.append(('values', '%s cell %s differs' % (label, idx)))
        elif a1 is not None and e1 is not None and (a1[0] != e1[0] or a1[1] != e1[1]):
            out.append(('channel', '%s cell %s reads input slice %s, reference %s' % (label, idx, a1[1], e1[1])))
        else:
            out.append(('structure', '%s cell %s: %d product terms, reference %d'
                        % (label, idx, len(canon_cell(act)), len(canon_cell(exp)))))
        if len(out) >= 3:
            break
    return out


# ------------------------------------------------------------ forward 1-D
def w_fwd1d(S, item):
    mode, L, N, J, nb, c = item[:6]
    form = item[6] if len(item) > 6 else 'name'
    wave, (r_lo, r_hi) = wave_spec_1d(form, L, 'dec')
    res = {'cmp': 0, 'diff': 0, 'findings': [], 'sample': None}
    inst = S.construct(T1, 'DWT1DForward', J=J, wave=wave, mode=mode)
    b, x = base_tensor('x', nb, c, [N])
    o = S.run(S.method(inst, 'forward'), x)
    lens = level_lengths(N, L, mode, J)
    cond = size_cond(lens[:-1], L, mode)
    construct = 'DWT1DForward.forward'
    res['cmp'] += 1
    if o.kind != 'ok':
        if o.kind == 'raises' and mode == 'reflect' and cond == 'N<L' and o.exc.name == 'RuntimeError':
            res['sample'] = {'config': list(item), 'outcome': 'raises (allowed: reflect, signal shorter than filter)'}
            return res
        res['diff'] += 1
        res['findings'].append(exc_finding(S, o, construct, '%s:%s' % (mode, cond)))
        return res
    yl, yh = o.value
    cur = AxisTable.identity((b.id, 0), N)
    problems = []
    if not isinstance(yh, list) or len(yh) != J or not isinstance(yl, DataT):
        problems.append(('structure', 'return value is not (tensor, list of %d tensors)' % J))
    else:
        for j in range(J):
            rule = spec.dwt_rule(len(cur), L, mode)
            lo = spec.apply_rule(cur, rule, r_lo)
            hi = spec.apply_rule(cur, rule, r_hi)
            exp = {(n, ci): expected_cell(b, (n, ci), [hi]) for n in range(nb) for ci in range(c)}
            if not isinstance(yh[j], DataT) or list(yh[j].shape) != [nb, c, len(hi)]:
                problems.append(('shape', 'highpass level %d has shape %s, reference %s'
                                 % (j + 1, list(getattr(yh[j], 'shape', [])), [nb, c, len(hi)])))
                break
            problems += compare_cells(yh[j], exp, 'highpass level %d' % (j + 1))
            cur = lo
        if not problems:
            exp = {(n, ci): expected_cell(b, (n, ci), [cur]) for n in range(nb) for ci in range(c)}
            if list(yl.shape) != [nb, c, len(cur)]:
                problems.append(('shape', 'lowpass has shape %s, reference %s' % (list(yl.shape), [nb, c, len(cur)])))
            else:
                problems += compare_cells(yl, exp, 'lowpass')
    if problems:
        res['diff'] += 1
        what, msg = problems[0]
        res['findings'].append(finding('NF', construct, '%s:%s:%s' % (mode, cond, _coarse(what)),
                                       'mode=%s L=%d N=%d J=%d: %s' % (mode, L, N, J, msg),
                                       anchor=anchor(S, LL, 'afb1d'), detail={'config': list(item), 'all': problems[:5]}))
    else:
        res['sample'] = {'config': dict(mode=mode, L=L, N=N, J=J), 'lowpass_len': len(cur),
                         'lowpass_form_at_0': repr(cur.forms[0])[:300]}
    for f in S.take_findings():
        res['findings'].append(f.as_dict())
    return res


def _coarse(what):
    return {'boundary': 'values', 'offset': 'values', 'filter': 'values'}.get(what, what)


# ------------------------------------------------------------ forward 2-D
def wave_spec(kind, Lc, Lr):
    """returns (wave argument, roles dict axis-> (lo role, hi role)) for analysis ('dec') filters"""
    if kind in ('name', 'object'):
        w = wname(Lc) if kind == 'name' else wavelet_object(Lc)
        return w, {'col': (role(Lc, 'dec_lo'), role(Lc, 'dec_hi')), 'row': (role(Lc, 'dec_lo'), role(Lc, 'dec_hi'))}
    if kind == 'tuple2':
        w = (user_filter('0', Lc), user_filter('1', Lc))
        return w, {'col': (('user', '0'), ('user', '1')), 'row': (('user', '0'), ('user', '1'))}
    if kind == 'tuple4':
        w = (user_filter('0', Lc), user_filter('1', Lc), user_filter('2', Lr), user_filter('3', Lr))
        return w, {'col': (('user', '0'), ('user', '1')), 'row': (('user', '2'), ('user', '3'))}
    raise ValueError(kind)


def wave_spec_rec(kind, Lc, Lr):
    if kind in ('name', 'object'):
        w = wname(Lc) if kind == 'name' else wavelet_object(Lc)
        return w, {'col': (role(Lc, 'rec_lo'), role(Lc, 'rec_hi')), 'row': (role(Lc, 'rec_lo'), role(Lc, 'rec_hi'))}
    return wave_spec(kind, Lc, Lr)


def wavelet_object(L):
    """the pywt.Wavelet instance itself (second documented form of `wave`)"""
    from ..fakelibs import AbstractWavelet
    return AbstractWavelet(wname(L), L)


def wave_spec_1d(kind, L, which):
    """(wave argument, (lo role, hi role)) for the 1-D modules; which = 'dec' | 'rec'"""
    if kind == 'tuple2':
        return (user_filter('0', L), user_filter('1', L)), (('user', '0'), ('user', '1'))
    w = wname(L) if kind == 'name' else wavelet_object(L)
    return w, (role(L, which + '_lo'), role(L, which + '_hi'))


def expected_fwd2d_level(th, tw, Lc, Lr, mode, roles):
    rh = spec.dwt_rule(len(th), Lc, mode)
    rw = spec.dwt_rule(len(tw), Lr, mode)
    loH = spec.apply_rule(th, rh, roles['col'][0])
    hiH = spec.apply_rule(th, rh, roles['col'][1])
    loW = spec.apply_rule(tw, rw, roles['row'][0])
    hiW = spec.apply_rule(tw, rw, roles['row'][1])
    # band order: ll | lh (pywt cH: detail along the vertical axis), hl (cV), hh (cD)
    return (loH, loW), [(hiH, loW), (loH, hiW), (hiH, hiW)]


def w_fwd2d(S, item):
    mode, kind, Lc, Lr, H, W, J, nb, c = item
    res = {'cmp': 1, 'diff': 0, 'findings': [], 'sample': None}
    wave, roles = wave_spec(kind, Lc, Lr)
    inst = S.construct(T2, 'DWTForward', J=J, wave=wave, mode=mode)
    b, x = base_tensor('x', nb, c, [H, W])
    o = S.run(S.method(inst, 'forward'), x)
    lh_ = level_lengths(H, Lc, mode, J)
    lw_ = level_lengths(W, Lr, mode, J)
    if mode in ('periodization', 'per'):
        cond = 'Ne<L' if 'Ne<L' in (size_cond(lh_[:-1], Lc, mode), size_cond(lw_[:-1], Lr, mode)) else 'Ne>=L'
    else:
        cond = 'N<L' if 'N<L' in (size_cond(lh_[:-1], Lc, mode), size_cond(lw_[:-1], Lr, mode)) else 'N>=L'
    construct = 'DWTForward.forward' + ('[4-filter]' if kind == 'tuple4' else '')
    if o.kind != 'ok':
        if o.kind == 'raises' and mode == 'reflect' and cond == 'N<L' and o.exc.name == 'RuntimeError':
            res['sample'] = {'config': list(item), 'outcome': 'raises (allowed: reflect, signal shorter than filter)'}
            return res
        res['diff'] = 1
        res['findings'].append(exc_finding(S, o, construct, '%s:%s' % (mode, cond)))
        return res
    yl, yh = o.value
    th = AxisTable.identity((b.id, 0), H)
    tw = AxisTable.identity((b.id, 1), W)
    problems = []
    if not isinstance(yh, list) or len(yh) != J or not isinstance(yl, DataT):
        problems.append(('structure', 'return value is not (tensor, list of %d tensors)' % J))
    else:
        for j in range(J):
            (loH, loW), bands = expected_fwd2d_level(th, tw, Lc, Lr, mode, roles)
            shape = [nb, c, 3, len(loH), len(loW)]
            if not isinstance(yh[j], DataT) or list(yh[j].shape) != shape:
                problems.append(('shape', 'highpass level %d has shape %s, reference %s'
                                 % (j + 1, list(getattr(yh[j], 'shape', [])), shape)))
                break
            exp = {(n, ci, k): expected_cell(b, (n, ci), list(bands[k]))
                   for n in range(nb) for ci in range(c) for k in range(3)}
            problems += compare_cells(yh[j], exp, 'highpass level %d' % (j + 1))
            th, tw = loH, loW
        if not problems:
            shape = [nb, c, len(th), len(tw)]
            if list(yl.shape) != shape:
                problems.append(('shape', 'lowpass has shape %s, reference %s' % (list(yl.shape), shape)))
            else:
                exp = {(n, ci): expected_cell(b, (n, ci), [th, tw]) for n in range(nb) for ci in range(c)}
                problems += compare_cells(yl, exp, 'lowpass')
    if problems:
        res['diff'] = 1
        what, msg = problems[0]
        res['findings'].append(finding('NF', construct, '%s:%s:%s' % (mode, cond, _coarse(what)),
                                       'mode=%s filters=%s Lcol=%d Lrow=%d HxW=%dx%d J=%d: %s'
                                       % (mode, kind, Lc, Lr, H, W, J, msg),
                                       anchor=anchor(S, LL, 'AFB2D', 'forward'),
                                       detail={'config': list(item), 'all': problems[:5]}))
    else:
        res['sample'] = {'config': dict(mode=mode, filters=kind, Lcol=Lc, Lrow=Lr, H=H, W=W, J=J),
                         'lowpass_shape': [len(th), len(tw)]}
    for f in S.take_findings():
        res['findings'].append(f.as_dict())
    return res


# ------------------------------------------------------------- inverse 1-D
def pyramid_bases_1d(nb, c, lens):
    """bases for (yl, [yh_1 .. yh_J]) of the shapes the forward transform produces"""
    J = len(lens) - 1
    bl, yl = base_tensor('yl', nb, c, [lens[J]])
    hs = []
    for j in range(J):
        bh, yh = base_tensor('yh%d' % (j + 1), nb, c, [lens[j + 1]])
        hs.append((bh, yh))
    return (bl, yl), hs


def expected_inv1d(bl, hs, lens, L, mode, roles, present):
    """pywt.waverec as tables: list of (base, table) terms for each (n, c) (same for all)"""
    J = len(lens) - 1
    terms = [(bl, AxisTable.identity((bl.id, 0), lens[J]))]
    for j in range(J - 1, -1, -1):
        m = lens[j + 1]
        cur_len = len(terms[0][1])
        if cur_len == m + 1:
            terms = [(b, spec.crop_table(t, m)) for b, t in terms]
        elif cur_len != m:
            return None
        rule = spec.idwt_rule(m, L, mode)
        new = [(b, spec.apply_rule(t, rule, roles[0])) for b, t in terms]
        if present[j]:
            bh = hs[j][0]
            new.append((bh, spec.apply_rule(AxisTable.identity((bh.id, 0), m), rule, roles[1])))
        terms = new
    return terms


def w_inv1d(S, item):
    mode, L, N, J, nb, c, none_mask = item[:7]
    form = item[7] if len(item) > 7 else 'name'
    wave, roles_1d = wave_spec_1d(form, L, 'rec')
    res = {'cmp': 1, 'diff': 0, 'findings': [], 'sample': None}
    lens = level_lengths(N, L, mode, J)
    cond = size_cond(lens[:-1], L, mode)
    if none_mask and cond == 'Ne>=L':
        cond += ',odd-level' if any(n % 2 for n in lens[:-1]) else ',even-levels'
    inst = S.construct(T1, 'DWT1DInverse', wave=wave, mode=mode)
    (bl, yl), hs = pyramid_bases_1d(nb, c, lens)
    present = [not (none_mask >> j) & 1 for j in range(J)]
    highs = ArgList([h[1] if p else None for h, p in zip(hs, present)])
    highs.label = 'highpass list'
    o = S.run(S.method(inst, 'forward'), (yl, highs))
    construct = 'DWT1DInverse.forward' + ('[None level]' if none_mask else '')
    if o.kind != 'ok':
        res['diff'] = 1
        res['findings'].append(exc_finding(S, o, construct, '%s:%s' % (mode, cond)))
        return res
    y = o.value
    roles = roles_1d
    exp_terms = expected_inv1d(bl, hs, lens, L, mode, roles, present)
    problems = []
    if exp_terms is None:
        raise AnalysisError('spec', 'reference pyramid inconsistent for %r' % (item,))
    n_ref = len(exp_terms[0][1])
    if not isinstance(y, DataT) or y.ndim != 3 or list(y.shape[:2]) != [nb, c]:
        problems.append(('shape', 'result has shape %s' % (list(getattr(y, 'shape', [])),)))
    else:
        n_cmp = n_ref
        if none_mask:
            n_cmp = N                       # "on the signal's extent"
            if y.shape[2] < N:
                problems.append(('shape', 'result length %d is shorter than the signal extent %d' % (y.shape[2], N)))
        elif y.shape[2] != n_ref:
            problems.append(('shape', 'result length %d, reference %d' % (y.shape[2], n_ref)))
        if not problems:
            yc = y[:, :, :n_cmp] if y.shape[2] != n_cmp else y
            exp = {}
            for n in range(nb):
                for ci in range(c):
                    exp[(n, ci)] = tuple(Term(b, (n, ci), [spec.crop_table(t, n_cmp)]) for b, t in exp_terms)
            problems += compare_cells_multi(yc, exp, 'reconstruction')
    if problems:
        res['diff'] = 1
        what, msg = problems[0]
        res['findings'].append(finding('NF', construct, '%s:%s:%s' % (mode, cond, _coarse(what)),
                                       'mode=%s L=%d N=%d J=%d none_mask=%s: %s' % (mode, L, N, J, bin(none_mask), msg),
                                       anchor=anchor(S, LL, 'sfb1d'), detail={'config': list(item), 'all': problems[:5]}))
    else:
        res['sample'] = {'config': dict(mode=mode, L=L, N=N, J=J, none_mask=none_mask), 'out_len': int(y.shape[2])}
    for f in S.take_findings():
        res['findings'].append(f.as_dict())
    return res


def compare_cells_multi(actual, exp_cells, label):
    out = []
    for idx, exp in exp_cells.items():
        act = actual.cells[idx]
        if cells_equal(act, exp):
            continue
        ca, ce = canon_cell(act), canon_cell(exp)
        ka = {(t[0], t[1]): t for t in ca}
        ke = {(t[0], t[1]): t for t in ce}
        if len(ka) == len(ca) and len(ke) == len(ce) and set(ka) == set(ke):
            done = False
            for k in ke:
                if ka[k] != ke[k]:
                    for ax, (ta, te) in enumerate(zip(ka[k][2], ke[k][2])):
                        if ta != te:
                            what, msg = describe_table_diff(ta, te)
                            out.append((what, '%s cell %s, input %s, axis %d: %s' % (label, idx, k, ax, msg)))
                            done = True
                            break
                    if done:
                        break
            if not done:
                out.append(('values', '%s cell %s differs' % (label, idx)))
        else:
            extra = set(ka) - set(ke)
            missing = set(ke) - set(ka)
            out.append(('structure', '%s cell %s: depends on %d inputs, reference %d (extra %s, missing %s)'
                        % (label, idx, len(ka), len(ke), sorted(extra)[:2], sorted(missing)[:2])))
        if len(out) >= 3:
            break
    return out


# ------------------------------------------------------------- inverse 2-D
def w_inv2d(S, item):
    mode, kind, Lc, Lr, H, W, J, nb, c, none_mask = item
    res = {'cmp': 1, 'diff': 0, 'findings': [], 'sample': None}
    lh_ = level_lengths(H, Lc, mode, J)
    lw_ = level_lengths(W, Lr, mode, J)
    conds = (size_cond(lh_[:-1], Lc, mode), size_cond(lw_[:-1], Lr, mode))
    cond = ('Ne<L' if 'Ne<L' in conds else 'Ne>=L') if mode in ('periodization', 'per') else ('N<L' if 'N<L' in conds else 'N>=L')
    if none_mask and cond == 'Ne>=L':
        cond += ',odd-level' if any(n % 2 for n in lh_[:-1] + lw_[:-1]) else ',even-levels'
    wave, roles = wave_spec_rec(kind, Lc, Lr)
    inst = S.construct(T2, 'DWTInverse', wave=wave, mode=mode)
    bl, yl = base_tensor('yl', nb, c, [lh_[J], lw_[J]])
    hs = []
    for j in range(J):
        hs.append(base_tensor('yh%d' % (j + 1), nb, c, [lh_[j + 1], lw_[j + 1]], extra_e=(3,)))
    present = [not (none_mask >> j) & 1 for j in range(J)]
    highs = ArgList([h[1] if p else None for h, p in zip(hs, present)])
    highs.label = 'highpass list'
    o = S.run(S.method(inst, 'forward'), (yl, highs))
    construct = 'DWTInverse.forward' + ('[4-filter]' if kind == 'tuple4' else '') + ('[None level]' if none_mask else '')
    if o.kind != 'ok':
        res['diff'] = 1
        res['findings'].append(exc_finding(S, o, construct, '%s:%s' % (mode, cond)))
        return res
    y = o.value
    # reference: pywt.waverec2
    terms = [(bl, None, AxisTable.identity((bl.id, 0), lh_[J]), AxisTable.identity((bl.id, 1), lw_[J]))]
    for j in range(J - 1, -1, -1):
        mh, mw = lh_[j + 1], lw_[j + 1]
        if len(terms[0][2]) == mh + 1:
            terms = [(b, k, spec.crop_table(th, mh), tw) for b, k, th, tw in terms]
        if len(terms[0][3]) == mw + 1:
            terms = [(b, k, th, spec.crop_table(tw, mw)) for b, k, th, tw in terms]
        if len(terms[0][2]) != mh or len(terms[0][3]) != mw:
            raise AnalysisError('spec', 'reference pyramid inconsistent for %r' % (item,))
        rh = spec.idwt_rule(mh, Lc, mode)
        rw = spec.idwt_rule(mw, Lr, mode)
        new = [(b, k, spec.apply_rule(th, rh, roles['col'][0]), spec.apply_rule(tw, rw, roles['row'][0]))
               for b, k, th, tw in terms]
        if present[j]:
            bh = hs[j][0]
            ih = AxisTable.identity((bh.id, 0), mh)
            iw = AxisTable.identity((bh.id, 1), mw)
            # bands: 0 = LH (detail along H), 1 = HL (detail along W), 2 = HH
            for k, (fh, fw) in enumerate(((1, 0), (0, 1), (1, 1))):
                new.append((bh, k, spec.apply_rule(ih, rh, roles['col'][fh]), spec.apply_rule(iw, rw, roles['row'][fw])))
        terms = new
    nh_ref, nw_ref = len(terms[0][2]), len(terms[0][3])
    problems = []
    if not isinstance(y, DataT) or y.ndim != 4 or list(y.shape[:2]) != [nb, c]:
        problems.append(('shape', 'result has shape %s' % (list(getattr(y, 'shape', [])),)))
    else:
        ch, cw = nh_ref, nw_ref
        if none_mask:
            ch, cw = H, W
            if y.shape[2] < H or y.shape[3] < W:
                problems.append(('shape', 'result %s is smaller than the signal extent %s' % (list(y.shape[2:]), [H, W])))
        elif list(y.shape[2:]) != [nh_ref, nw_ref]:
            problems.append(('shape', 'result size %s, reference %s' % (list(y.shape[2:]), [nh_ref, nw_ref])))
        if not problems:
            yc = y[:, :, :ch, :cw]
            exp = {}
            for n in range(nb):
                for ci in range(c):
                    exp[(n, ci)] = tuple(Term(b, (n, ci) if k is None else (n, ci, k),
                                              [spec.crop_table(th, ch), spec.crop_table(tw, cw)])
                                         for b, k, th, tw in terms)
            problems += compare_cells_multi(yc, exp, 'reconstruction')
    if problems:
        res['diff'] = 1
        what, msg = problems[0]
        res['findings'].append(finding('NF', construct, '%s:%s:%s' % (mode, cond, _coarse(what)),
                                       'mode=%s filters=%s Lcol=%d Lrow=%d HxW=%dx%d J=%d none_mask=%s: %s'
                                       % (mode, kind, Lc, Lr, H, W, J, bin(none_mask), msg),
                                       anchor=anchor(S, LL, 'SFB2D', 'forward'),
                                       detail={'config': list(item), 'all': problems[:5]}))
    else:
        res['sample'] = {'config': dict(mode=mode, filters=kind, Lcol=Lc, Lrow=Lr, H=H, W=W, J=J, none_mask=none_mask),
                         'out_size': [int(y.shape[2]), int(y.shape[3])]}
    for f in S.take_findings():
        res['findings'].append(f.as_dict())
    return res


# ------------------------------------------------- numeric evaluation of tables
def tap_values(wavelet_name):
    """tap symbol -> value for one PyWavelets wavelet (table data read from the installed package)"""
    import pywt
    w = pywt.Wavelet(wavelet_name)
    L = w.dec_len
    vals = {}
    for which in ('dec_lo', 'dec_hi', 'rec_lo', 'rec_hi'):
        arr = getattr(w, which)
        for i, v in enumerate(arr):
            vals[(role(L, which), i)] = float(v)
    return L, vals


def per_axis_tap_values(wcol, wrow):
    """tap values for a 4-filter transform: column wavelet on the vertical axis, row wavelet on the horizontal"""
    import pywt
    wc, wr = pywt.Wavelet(wcol), pywt.Wavelet(wrow)
    vals = {}
    for i, (w, which) in enumerate(((wc, 'dec_lo'), (wc, 'dec_hi'), (wr, 'dec_lo'), (wr, 'dec_hi'))):
        for j, v in enumerate(getattr(w, which)):
            vals[(('user', 'a%d' % i), j)] = float(v)
    for i, (w, which) in enumerate(((wc, 'rec_lo'), (wc, 'rec_hi'), (wr, 'rec_lo'), (wr, 'rec_hi'))):
        for j, v in enumerate(getattr(w, which)):
            vals[(('user', 's%d' % i), j)] = float(v)
    return vals


def table_matrix(tb, n_in, vals):
    M = np.zeros((len(tb.forms), n_in))
    for k, f in enumerate(tb.forms):
        for (mono, p), c in f.d.items():
            v = float(c)
            for s in mono:
                v *= vals[s]
            M[k, p] += v
    return M


def cell_operator(cell, base, bchan, in_sizes, vals):
    """dense numeric operator of one cell restricted to input slice base[bchan]"""
    out = None
    for t in cell:
        if t.base.id != base.id or t.bchan != tuple(bchan):
            return None
        mats = []
        for tb in t.tables:
            mats.append(table_matrix(tb, in_sizes[tb.base_axis[1]], vals))
        m = mats[0] * float(t.coef)
        for mm in mats[1:]:
            m = np.kron(m, mm)
        out = m if out is None else out + m
    return out


def ref_compose_error_1d(N, L, mode, J, vals):
    """|S*A - I| of PyWavelets' own operators (index rules evaluated numerically) on the extent"""
    lens = [N]
    mats = []
    cur = np.eye(N)
    his = []
    for j in range(J):
        rule = spec.dwt_rule(lens[-1], L, mode)
        A0 = np.zeros((len(rule), lens[-1]))
        A1 = np.zeros((len(rule), lens[-1]))
        for k, row in enumerate(rule):
            for jj, i in row:
                A0[k, i] += vals[(role(L, 'dec_lo'), jj)]
                A1[k, i] += vals[(role(L, 'dec_hi'), jj)]
        his.append(A1 @ cur)
        cur = A0 @ cur
        lens.append(len(rule))
    a = cur
    for j in range(J - 1, -1, -1):
        m = lens[j + 1]
        if a.shape[0] == m + 1:
            a = a[:m]
        rule = spec.idwt_rule(m, L, mode)
        S0 = np.zeros((len(rule), m))
        S1 = np.zeros((len(rule), m))
        for n, row in enumerate(rule):
            for t, k in row:
                S0[n, k] += vals[(role(L, 'rec_lo'), t)]
                S1[n, k] += vals[(role(L, 'rec_hi'), t)]
        a = S0 @ a + S1 @ his[j]
    return float(np.abs(a[:N] - np.eye(N)).max()) if a.shape[0] >= N else float('inf')


# ------------------------------------------------ C02: synthesis o analysis = I
def w_compose(S, item):
    dim, mode, L, size, J, wavelets = item
    # 'default': the modules are built without a mode argument (both sides rely on their default, documented 'zero')
    mkw = {} if mode == 'default' else {'mode': mode}
    if mode == 'default':
        mode = 'zero'
    res = {'cmp': 0, 'diff': 0, 'findings': [], 'sample': None}
    if dim == 1:
        N = size
        f = S.construct(T1, 'DWT1DForward', J=J, wave=wname(L), **mkw)
        g = S.construct(T1, 'DWT1DInverse', wave=wname(L), **mkw)
        b, x = base_tensor('x', 1, 1, [N])
        lens = level_lengths(N, L, mode, J)
        cond = size_cond(lens[:-1], L, mode)
        in_sizes = [N]
    else:
        H, W = size
        if dim == 4:
            # one wavelet per axis: analysis filters a0..a3, synthesis filters s0..s3 (column pair, row pair)
            Lc, Lr = L
            fa = tuple(user_filter('a%d' % i, Lc if i < 2 else Lr) for i in range(4))
            fs = tuple(user_filter('s%d' % i, Lc if i < 2 else Lr) for i in range(4))
            f = S.construct(T2, 'DWTForward', J=J, wave=fa, **mkw)
            g = S.construct(T2, 'DWTInverse', wave=fs, **mkw)
        else:
            Lc = Lr = L
            f = S.construct(T2, 'DWTForward', J=J, wave=wname(L), **mkw)
            g = S.construct(T2, 'DWTInverse', wave=wname(L), **mkw)
        b, x = base_tensor('x', 1, 1, [H, W])
        lh_ = level_lengths(H, Lc, mode, J)
        lw_ = level_lengths(W, Lr, mode, J)
        conds = (size_cond(lh_[:-1], Lc, mode), size_cond(lw_[:-1], Lr, mode))
        cond = ('Ne<L' if 'Ne<L' in conds else 'Ne>=L') if mode in ('periodization', 'per') else ('N<L' if 'N<L' in conds else 'N>=L')
        in_sizes = [H, W]
    construct = 'DWT%sInverse(DWT%sForward(x))' % (('1D', '1D') if dim == 1 else ('', '')) + ('[4-filter]' if dim == 4 else '') + \
        ('[default mode]' if not mkw else '')
    o = S.run(S.method(f, 'forward'), x)
    if o.kind == 'ok':
        yl, yh = o.value
        o = S.run(S.method(g, 'forward'), (yl, yh))
    res['cmp'] = 1
    if o.kind != 'ok':
        if o.kind == 'raises' and mode == 'reflect' and cond == 'N<L' and o.exc.name == 'RuntimeError':
            res['sample'] = {'config': list(item[:5]), 'outcome': 'raises (allowed)'}
            return res
        res['diff'] = 1
        res['findings'].append(exc_finding(S, o, construct, '%s:%s' % (mode, cond)))
        return res
    y = o.value
    ext = list(y.shape[2:])
    problems = []
    for a, (got, want) in enumerate(zip(ext, in_sizes)):
        if got not in (want, want + 1) or (got == want + 1 and want % 2 == 0):
            problems.append(('extent', 'reconstruction has size %s for input size %s (allowed: N, or N+1 for odd N)'
                             % (ext, in_sizes)))
            break
    worst = None
    if not problems:
        n_in = int(np.prod(in_sizes))
        for wn in wavelets:
            if dim == 4:
                vals = per_axis_tap_values(wn[0], wn[1])
            else:
                Lw, vals = tap_values(wn)
            M = cell_operator(y.cells[0, 0], b, (0, 0), in_sizes, vals)
            res['cmp'] += 1
            if M is None:
                problems.append(('channel', 'reconstruction reads another input slice'))
                break
            # rows of the original extent
            if dim == 1:
                rows = np.arange(in_sizes[0])
            else:
                rows = (np.arange(in_sizes[0])[:, None] * ext[1] + np.arange(in_sizes[1])[None, :]).ravel()
            err = float(np.abs(M[rows] - np.eye(n_in)).max())
            if dim == 1:
                ref = ref_compose_error_1d(in_sizes[0], L, mode, J, vals)
            elif dim == 4:
                ref = 1e-12
            else:
                ref = max(ref_compose_error_1d(in_sizes[0], L, mode, J, vals),
                          ref_compose_error_1d(in_sizes[1], L, mode, J, vals))
                ref = 2 * ref + ref * ref
            tol = max(1e-9, 1.5 * ref + 1e-12)
            if worst is None or err > worst[1]:
                worst = (wn, err, ref)
            if err > tol:
                problems.append(('not-identity', 'wavelet %s: max |S*A - I| = %.3g on the original extent '
                                 '(PyWavelets\' own operators: %.3g)' % (wn, err, ref)))
                break
    if problems:
        res['diff'] = 1
        what, msg = problems[0]
        res['findings'].append(finding('PR', construct, '%s:%s:%s' % (mode, cond, what),
                                       'mode=%s L=%s size=%s J=%d: %s' % (mode, L, size, J, msg),
                                       anchor=anchor(S, LL, 'sfb1d'), detail={'config': list(item[:5])}))
    else:
        res['sample'] = {'config': dict(dim=dim, mode=mode, L=L, size=size, J=J), 'wavelets': list(wavelets),
                         'worst': worst}
    for fi in S.take_findings():
        res['findings'].append(fi.as_dict())
    return res


# ------------------------------------------------------- adjoints (C05, C17)
def transpose_table(tb, n_in, new_base_axis):
    acc = [dict() for _ in range(n_in)]
    for k, f in enumerate(tb.forms):
        for (mono, p), c in f.d.items():
            acc[p][(mono, k)] = c
    return AxisTable(new_base_axis, [Form(d) for d in acc])


def adjoint_cells(outputs, cots, in_base):
    """cells (dict bchan -> tuple(Term)) of J^T applied to cotangent bases `cots`, for input base in_base.
    outputs: list of DataT (forward results over base inputs); cots: list of Base with the outputs' dims."""
    in_s = [s for k, s in in_base.dims if k == 'S']
    in_e = [s for k, s in in_base.dims if k == 'E']
    res = {idx: [] for idx in itertools.product(*[range(s) for s in in_e])}
    cache = {}
    for out, cot in zip(outputs, cots):
        for idx in np.ndindex(*out.cells.shape):
            for t in out.cells[idx]:
                if t.base.id != in_base.id:
                    continue
                tabs = [None] * len(in_s)
                for s_out, tb in enumerate(t.tables):
                    a = tb.base_axis[1]
                    key = (id(tb), cot.id, s_out)
                    tt = cache.get(key)
                    if tt is None:
                        tt = (transpose_table(tb, in_s[a], (cot.id, s_out)), tb)
                        cache[key] = tt
                    tabs[a] = tt[0]
                if any(x is None for x in tabs):
                    raise AnalysisError('adjoint', 'a forward term does not cover every spatial axis of its input')
                res[t.bchan].append(Term(cot, idx, tabs, t.coef))
    return {k: tuple(v) for k, v in res.items()}


def flatten_out(v):
    if isinstance(v, (tuple, list)):
        out = []
        for x in v:
            out.extend(flatten_out(x))
        return out
    return [v]


def ctx_versions(ctx):
    """storage id -> (version, description) of every tensor the forward pass left on the autograd context
    (save_for_backward and plain attributes)"""
    out = {}

    def walk(v, where):
        if isinstance(v, DataT):
            out[v.storage.id] = (v.storage.version, where, v.storage)
        elif isinstance(v, (tuple, list)):
            for i, x in enumerate(v):
                walk(x, '%s[%d]' % (where, i))
        elif isinstance(v, dict):
            for k, x in v.items():
                walk(x, '%s[%r]' % (where, k))
    walk(getattr(ctx, '_saved', None) or (), 'ctx.saved_tensors')
    for k, v in (getattr(ctx, '_attrs', None) or {}).items():
        walk(v, 'ctx.' + str(k))
    return out


def ctx_mutations(before):
    """tensors of the context whose storage was written since ctx_versions(): a second backward through the same
    graph (retain_graph, one grad call per output, jacobian) would then see other values than the first"""
    return ['%s (written in place %d time(s))' % (where, st.version - v0)
            for _, (v0, where, st) in sorted(before.items()) if st.version != v0]


def check_backward(S, rec, diff_slots, needs, margin, label, canon=None):
    """Run rec.cls.backward on fresh cotangents and compare with the transposed forward operator.
    rec: ApplyRecord whose tensor inputs are base tensors.  Returns list of (slot, what, msg)."""
    from ..pyinterp import StaticMethod, PyFunc
    outs = flatten_out(rec.out)
    cots, cot_ts = [], []
    for i, o in enumerate(outs):
        if not isinstance(o, DataT):
            raise AnalysisError('adjoint', 'forward output %d is not a tensor' % i)
        bc = Base('g%d' % i, o.dims, dtype=o.dtype)
        cots.append(bc)
        cot_ts.append(bc.tensor(origin='arg'))
    bwd = rec.cls.lookup('backward')
    if isinstance(bwd, StaticMethod):
        bwd = bwd.func
    if not isinstance(bwd, PyFunc):
        raise AnalysisError('anchor-missing', '%s.backward' % rec.cls.name)
    saved0 = ctx_versions(rec.ctx)
    S.interp.nograd += 1
    try:
        o = S.run(bwd, rec.ctx, *cot_ts)
    finally:
        S.interp.nograd = 0
    problems = []
    for m in ctx_mutations(saved0):
        problems.append((None, 'saved-state-mutated', 'backward overwrites %s: a repeated backward through the same '
                         'graph no longer computes J^T g' % m, None))
    if o.kind != 'ok':
        e = o.exc
        problems.append((None, 'raises' if o.kind == 'raises' else e.rule,
                         'backward raises %s: %s' % (getattr(e, 'name', e.__class__.__name__), str(getattr(e, 'msg', e))[:140]),
                         getattr(e, 'loc', None)))
        return problems
    grads = o.value
    if not isinstance(grads, tuple):
        grads = (grads,)
    n_in = len(rec.args)
    if len(grads) < n_in:
        problems.append((None, 'arity', 'backward returns %d gradients for %d forward inputs' % (len(grads), n_in), None))
        return problems
    for i, g in enumerate(grads):
        if i >= n_in:
            if g is not None:
                problems.append((i, 'arity', 'extra gradient slot %d is not None' % i, None))
            continue
        a = rec.args[i]
        if not isinstance(a, DataT) and not hasattr(a, 'arr') and g is not None:
            problems.append((i, 'arity', 'gradient for non-tensor input %d is not None' % i, None))
    for i in diff_slots:
        if not needs[i]:
            continue
        g = grads[i]
        a = rec.args[i]
        base = a.base_of
        if g is None:
            problems.append((i, 'missing-gradient', 'input %d requires grad but backward returns None for it' % i, None))
            continue
        if not isinstance(g, DataT):
            problems.append((i, 'type', 'gradient %d is %s' % (i, type(g).__name__), None))
            continue
        if list(g.shape) != list(a.shape):
            problems.append((i, 'shape', 'gradient %d has shape %s, input has %s' % (i, list(g.shape), list(a.shape)), None))
            continue
        exp = adjoint_cells(outs, cots, base)
        diffs = []
        for idx, e in exp.items():
            act = g.cells[idx]
            if canon is not None:
                act = tuple(Term(t.base, t.bchan, [tb.subst(canon) for tb in t.tables], t.coef) for t in act)
                e = tuple(Term(t.base, t.bchan, [tb.subst(canon) for tb in t.tables], t.coef) for t in e)
            if cells_equal(act, e):
                continue
            diffs.append(classify_adj(act, e, margin))
            if len(diffs) >= 2:
                break
        if diffs:
            problems.append((i, diffs[0][0], 'gradient of input %d is not J^T g: %s' % (i, diffs[0][1]), None))
    return problems


def classify_adj(act, exp, margin):
    ca, ce = canon_cell(act), canon_cell(exp)
    ka = {(t[0], t[1]): t for t in ca}
    ke = {(t[0], t[1]): t for t in ce}
    if len(ka) != len(ca) or len(ke) != len(ce) or set(ka) != set(ke):
        return ('structure', 'depends on %d cotangent slices, the adjoint on %d' % (len(ca), len(ce)))
    worst = None
    for k in ke:
        if ka[k] == ke[k]:
            continue
        for ax, (ta, te) in enumerate(zip(ka[k][2], ke[k][2])):
            if ta == te:
                continue
            if len(ta) != len(te):
                return ('length', 'axis %d has %d positions, adjoint %d' % (ax, len(ta), len(te)))
            n = len(te)
            rows = [r for r in range(n) if ta.forms[r] != te.forms[r]]
            inner = [r for r in rows if margin <= r < n - margin]
            if inner:
                what, msg = describe_table_diff(ta, te)
                return ('interior', 'axis %d: %s' % (ax, msg))
            worst = ('boundary', 'axis %d differs only within %d samples of the ends (rows %s): '
                     'the fold of the boundary extension is missing' % (ax, margin, rows[:6]))
    return worst or ('values', 'cells differ')


def w_adj(S, item):
    """C05: one Function, one mode/size, one subset of inputs requiring grad."""
    fn, mode, L, size, mask = item
    res = {'cmp': 1, 'diff': 0, 'findings': [], 'sample': None}
    S.libs.apply_log = []
    per_axis = fn.endswith('/4')          # separate column / row filters (4-tuple), row filters two taps longer
    if per_axis:
        fn = fn[:-2]
        wave_a = tuple(user_filts(4, L, L + 2))
        wave_s = tuple(user_filts(4, L, L + 2))
    else:
        wave_a = wave_s = wname(L)
    if fn == 'AFB1D':
        inst = S.construct(T1, 'DWT1DForward', J=1, wave=wname(L), mode=mode)
        b, x = base_tensor('x', 1, 2, [size], requires_grad=bool(mask & 1))
        args = (x,)
        slots = [0]
        n_eff = size
    elif fn == 'AFB2D':
        inst = S.construct(T2, 'DWTForward', J=1, wave=wave_a, mode=mode)
        b, x = base_tensor('x', 1, 2, list(size), requires_grad=bool(mask & 1))
        args = (x,)
        slots = [0]
        n_eff = min(size)
    elif fn == 'SFB1D':
        inst = S.construct(T1, 'DWT1DInverse', wave=wname(L), mode=mode)
        bl, yl = base_tensor('yl', 1, 2, [size], requires_grad=bool(mask & 1))
        bh, yh = base_tensor('yh', 1, 2, [size], requires_grad=bool(mask & 2))
        args = ((yl, [yh]),)
        slots = [0, 1]
        n_eff = 2 * size
    elif fn == 'SFB2D':
        inst = S.construct(T2, 'DWTInverse', wave=wave_s, mode=mode)
        bl, yl = base_tensor('yl', 1, 2, list(size), requires_grad=bool(mask & 1))
        bh, yh = base_tensor('yh', 1, 2, list(size), extra_e=(3,), requires_grad=bool(mask & 2))
        args = ((yl, [yh]),)
        slots = [0, 1]
        n_eff = 2 * min(size)
    else:
        raise ValueError(fn)
    if mode == 'periodization':
        if fn.startswith('AFB'):
            sizes = [size] if fn == 'AFB1D' else list(size)
            cond = ('Ne<L' if any(s + s % 2 < L for s in sizes) else 'Ne>=L') + (',odd' if any(s % 2 for s in sizes) else ',even')
        else:
            cond = 'Ne<L' if n_eff < L else 'Ne>=L'
    else:
        cond = 'any'
    construct = '%s.backward' % fn
    if per_axis:
        L = L + 2
    o = S.run(S.method(inst, 'forward'), *args)
    if o.kind != 'ok':
        if o.kind == 'raises' and mode == 'reflect' and o.exc.name == 'RuntimeError':
            res['sample'] = {'config': list(item), 'outcome': 'forward raises (allowed: reflect, short signal)'}
            return res
        res['diff'] = 1
        res['findings'].append(exc_finding(S, o, construct, '%s:%s:forward' % (mode, cond)))
        return res
    recs = [r for r in S.libs.apply_log if r.cls.name == fn]
    if len(recs) != 1:
        raise AnalysisError('anchor-missing', 'expected exactly one %s.apply on the module path, saw %d' % (fn, len(recs)))
    rec = recs[0]
    if any(not isinstance(rec.args[i], DataT) for i in slots):
        raise AnalysisError('adjoint', '%s: a differentiable input is not a tensor at the module call site' % fn)
    if any(rec.args[i].base_of is None for i in slots):
        # the module hands the Function a view / crop of its input: re-run the Function on fresh symbolic inputs
        # with the argument binding of the module's call site
        args2 = list(rec.args)
        for i in slots:
            a = rec.args[i]
            nb_, t_ = base_tensor_dims('in%d' % i, a.dims, requires_grad=a.requires_grad)
            args2[i] = t_
        S.libs.apply_log = []
        o = S.run(S.interp.getattr(rec.cls, 'apply'), *args2)
        if o.kind != 'ok':
            res['diff'] = 1
            res['findings'].append(exc_finding(S, o, construct, '%s:%s:forward' % (mode, cond)))
            return res
        rec = S.libs.apply_log[-1]
    needs = rec.ctx.needs_input_grad
    problems = check_backward(S, rec, slots, needs, L, construct)
    for slot, what, msg, loc in problems:
        res['diff'] = 1
        d = finding('ADJ' if what in ('boundary', 'interior', 'values', 'structure', 'length') else 'BWD',
                    construct, '%s:%s:%s%s' % (mode, cond, what, '' if slot is None else ':slot%d' % slot),
                    'mode=%s L=%d size=%s requires_grad=%s: %s' % (mode, L, size, bin(mask), msg),
                    anchor=anchor(S, LL, fn, 'backward'), detail={'config': list(item)})
        if loc is not None:
            d['file'], d['line'], d['function'], d['statement'] = loc.file, loc.line, loc.func, loc.text
        res['findings'].append(d)
    if not problems:
        res['sample'] = {'config': dict(fn=fn, mode=mode, L=L, size=size, requires_grad_mask=mask),
                         'verdict': 'backward == transpose(forward) cell by cell'}
    for fi in S.take_findings():
        res['findings'].append(fi.as_dict())
    return res


# ----------------------------------------- C14 / C19: sibling implementations
def _mode_cond(mode, sizes, Ls):
    if mode in ('periodization', 'per'):
        return 'Ne<L' if any(n + n % 2 < L for n, L in zip(sizes, Ls)) else 'Ne>=L'
    return 'N<L' if any(n < L for n, L in zip(sizes, Ls)) else 'N>=L'


def same_tensor(a, b):
    """two abstract tensors denote the same values (shape, cells)"""
    if not isinstance(a, DataT) or not isinstance(b, DataT):
        return ('type', 'results are %s and %s' % (type(a).__name__, type(b).__name__))
    if list(a.shape) != list(b.shape):
        return ('shape', 'shapes %s and %s' % (list(a.shape), list(b.shape)))
    if a.dims != b.dims:
        b = b.retag_units(a.dims) or b
    if a.cells.shape != b.cells.shape:
        return ('shape', 'dim typing differs')
    for idx in np.ndindex(*a.cells.shape):
        if not cells_equal(a.cells[idx], b.cells[idx]):
            pr = compare_cells_multi(a, {idx: b.cells[idx]}, 'subband')
            return pr[0] if pr else ('values', 'cell %s differs' % (idx,))
    return None


def w_dim_alias(S, item):
    """the functional 1-D banks document `dim`: a negative axis index must denote the same operator as the positive
    spelling of that axis.  item = (fn, mode, L, H, W, dim)"""
    fn, mode, L, H, W, dim = item
    res = {'cmp': 1, 'diff': 0, 'findings': [], 'sample': None}
    f = S.get(LL, fn)
    if fn == 'afb1d':
        b, x = base_tensor('x', 1, 2, [H, W])
        args = (x, user_filter('0', L), user_filter('1', L))
    else:
        b, co = base_tensor('co', 1, 2, [H, W], extra_e=(2,))
        args = (co[:, :, 0], co[:, :, 1], user_filter('0', L), user_filter('1', L))
    outs = [S.run(lambda *a: S.interp.call(f, list(a), {'mode': mode, 'dim': d}), *args) for d in (dim, dim % 4)]
    o1, o2 = outs
    construct = '%s(dim=%d) vs %s(dim=%d)' % (fn, dim, fn, dim % 4)
    if o1.kind != 'ok' or o2.kind != 'ok':
        n_short = [H, W][(dim % 4) - 2] < L
        if o1.kind == o2.kind == 'raises' and o1.exc.name == o2.exc.name == 'RuntimeError' and mode == 'reflect' and n_short:
            res['sample'] = {'config': list(item), 'outcome': 'both raise (allowed: reflect, axis shorter than the filter)'}
            return res
        res['diff'] = 1
        bad = o1 if o1.kind != 'ok' else o2
        res['findings'].append(exc_finding(S, bad, construct, '%s:%s' % (mode, 'both-spellings-raise' if o1.kind == o2.kind else
                                                                         'one-spelling-raises')))
        return res
    prob = same_tensor(o1.value, o2.value)
    if not prob:
        # and the positive spelling against the PyWavelets rule along that axis (filters handed in as raw arrays)
        y = o2.value
        d = dim % 4
        sizes = [H, W]
        ax = d - 2
        n_ax = sizes[ax]
        roles = (('user', '0'), ('user', '1'))
        if fn == 'afb1d':
            rule = spec.dwt_rule(n_ax, L, mode)
            ident = [AxisTable.identity((b.id, 0), H), AxisTable.identity((b.id, 1), W)]
            want_shape = [1, 4, H, W]
            want_shape[d] = len(rule)
            if list(y.shape) != want_shape:
                prob = ('shape', '%s(dim=%d) has shape %s, PyWavelets gives %s' % (fn, d, list(y.shape), want_shape))
            else:
                for ci in range(2):
                    for k in range(2):
                        tabs = list(ident)
                        tabs[ax] = spec.apply_rule(ident[ax], rule, roles[k])
                        if not cells_equal(y.cells[0, 2 * ci + k], expected_cell(b, (0, ci), tabs)):
                            prob = ('values', 'band %d of channel %d differs from pywt.dwt along axis %d' % (k, ci, d))
        else:
            rule = spec.idwt_rule(n_ax, L, mode)
            want_shape = [1, 2, H, W]
            want_shape[d] = len(rule)
            if list(y.shape) != want_shape:
                prob = ('shape', '%s(dim=%d) has shape %s, PyWavelets gives %s' % (fn, d, list(y.shape), want_shape))
            else:
                ident = [AxisTable.identity((b.id, 0), H), AxisTable.identity((b.id, 1), W)]
                for ci in range(2):
                    exp = []
                    for k in range(2):
                        tabs = list(ident)
                        tabs[ax] = spec.apply_rule(ident[ax], rule, roles[k])
                        exp.append(Term(b, (0, ci, k), tabs))
                    if not cells_equal(y.cells[0, ci], tuple(exp)):
                        prob = ('values', 'channel %d differs from pywt.idwt along axis %d' % (ci, d))
    if prob:
        res['diff'] = 1
        res['findings'].append(finding('R-DIM', construct, '%s:%s' % (mode, prob[0]),
                                       'mode=%s L=%d HxW=%dx%d: %s' % (mode, L, H, W, prob[1]), anchor=anchor(S, LL, fn)))
    else:
        res['sample'] = {'config': list(item), 'verdict': 'same operator'}
    for fi in S.take_findings():
        res['findings'].append(fi.as_dict())
    return res


def user_filts(n, Lc, Lr):
    if n == 2:
        return [user_filter('0', Lc), user_filter('1', Lc)]
    return [user_filter('0', Lc), user_filter('1', Lc), user_filter('2', Lr), user_filter('3', Lr)]


def w_sibling(S, item):
    """which in {'afb-module', 'sfb-module', 'afb-nonsep', 'sfb-nonsep'}"""
    which, mode, nf, Lc, Lr, H, W = item
    if nf == 2:
        Lr = Lc
    res = {'cmp': 1, 'diff': 0, 'findings': [], 'sample': None}
    cond = _mode_cond(mode, (H, W), (Lc, Lr))
    nb, c = 1, 2
    afb2d = S.get(LL, 'afb2d')
    sfb2d = S.get(LL, 'sfb2d')
    if which == 'afb-module':
        b, x = base_tensor('x', nb, c, [H, W])
        inst = S.construct(T2, 'DWTForward', J=1, wave=tuple(user_filts(nf, Lc, Lr)), mode=mode)
        o1 = S.run(S.method(inst, 'forward'), x)
        o2 = S.run(afb2d, x, user_filts(nf, Lc, Lr), mode)
        construct = 'DWTForward[%d-filter] vs lowlevel.afb2d' % nf
        anch = anchor(S, T2, 'DWTForward', 'forward')

        def norm1(v):
            yl, yh = v
            return ops_cat5(yl, yh[0])

        def norm2(v):
            s = v.shape
            from .. import ops
            return ops.reshape(v, [s[0], -1, 4, s[-2], s[-1]])
    elif which == 'sfb-module':
        bl, ll = base_tensor('coeffs', nb, c, [H, W], extra_e=(4,))
        inst = S.construct(T2, 'DWTInverse', wave=tuple(user_filts(nf, Lc, Lr)), mode=mode)
        o1 = S.run(S.method(inst, 'forward'), (ll[:, :, 0], [ll[:, :, 1:]]))
        o2 = S.run(sfb2d, ll[:, :, 0], ll[:, :, 1], ll[:, :, 2], ll[:, :, 3], user_filts(nf, Lc, Lr), mode)
        construct = 'DWTInverse[%d-filter] vs lowlevel.sfb2d' % nf
        anch = anchor(S, T2, 'DWTInverse', 'forward')
        norm1 = norm2 = lambda v: v
    elif which == 'afb-nonsep':
        b, x = base_tensor('x', nb, c, [H, W])
        o1 = S.run(S.get(LL, 'afb2d_nonsep'), x, user_filts(nf, Lc, Lr), mode)
        o2 = S.run(afb2d, x, user_filts(nf, Lc, Lr), mode)
        construct = 'afb2d_nonsep[%d-filter] vs afb2d' % nf
        anch = anchor(S, LL, 'afb2d_nonsep')
        norm1 = norm2 = lambda v: v
    elif which == 'sfb-nonsep':
        bl, ll = base_tensor('coeffs', nb, c, [H, W], extra_e=(4,))
        o1 = S.run(S.get(LL, 'sfb2d_nonsep'), ll, user_filts(nf, Lc, Lr), mode)
        o2 = S.run(sfb2d, ll[:, :, 0], ll[:, :, 1], ll[:, :, 2], ll[:, :, 3], user_filts(nf, Lc, Lr), mode)
        construct = 'sfb2d_nonsep[%d-filter] vs sfb2d' % nf
        anch = anchor(S, LL, 'sfb2d_nonsep')
        norm1 = norm2 = lambda v: v
    elif which in ('afb-prepared', 'sfb-prepared'):
        # the separable bank given filters already prepared as tensors (the documented second argument form: the
        # first nf outputs of prep_filt_afb2d / prep_filt_sfb2d) vs the non-separable bank given the raw arrays
        prep = S.get(LL, 'prep_filt_afb2d' if which == 'afb-prepared' else 'prep_filt_sfb2d')
        o0 = S.run(prep, *user_filts(nf, Lc, Lr))
        if o0.kind != 'ok':
            res['diff'] = 1
            res['findings'].append(exc_finding(S, o0, prep.name, '%s:%s:prepare' % (mode, cond)))
            return res
        prepared = list(o0.value)[:nf]
        norm1 = norm2 = lambda v: v
        if which == 'afb-prepared':
            b, x = base_tensor('x', nb, c, [H, W])
            o1 = S.run(afb2d, x, prepared, mode)
            o2 = S.run(S.get(LL, 'afb2d_nonsep'), x, user_filts(nf, Lc, Lr), mode)
            construct = 'afb2d[%d prepared tensors] vs afb2d_nonsep' % nf
            anch = anchor(S, LL, 'afb2d')
        else:
            bl, ll = base_tensor('coeffs', nb, c, [H, W], extra_e=(4,))
            o1 = S.run(sfb2d, ll[:, :, 0], ll[:, :, 1], ll[:, :, 2], ll[:, :, 3], prepared, mode)
            o2 = S.run(S.get(LL, 'sfb2d_nonsep'), ll, user_filts(nf, Lc, Lr), mode)
            construct = 'sfb2d[%d prepared tensors] vs sfb2d_nonsep' % nf
            anch = anchor(S, LL, 'sfb2d')
    elif which == 'atrous-prepared':
        # the stationary bank given filters prepared as tensors (2- and 4-tensor forms) vs the raw arrays
        prep = S.get(LL, 'prep_filt_afb2d')
        o0 = S.run(prep, *user_filts(nf, Lc, Lr))
        if o0.kind != 'ok':
            res['diff'] = 1
            res['findings'].append(exc_finding(S, o0, 'prep_filt_afb2d', '%s:prepare' % mode))
            return res
        prepared = list(o0.value)[:nf]
        b, x = base_tensor('x', nb, c, [H, W])
        f = S.get(LL, 'afb2d_atrous')
        o1 = S.run(f, x, prepared, mode, 2)
        o2 = S.run(f, x, user_filts(nf, Lc, Lr), mode, 2)
        construct = 'afb2d_atrous[%d prepared tensors] vs raw arrays' % nf
        anch = anchor(S, LL, 'afb2d_atrous')
        norm1 = norm2 = lambda v: v
    else:
        raise ValueError(which)
    prob = None
    if o1.kind != 'ok' or o2.kind != 'ok':
        if o1.kind == o2.kind == 'raises' and o1.exc.name == o2.exc.name:
            res['sample'] = {'config': list(item), 'outcome': 'both raise %s' % o1.exc.name}
            return res
        bad = o1 if o1.kind != 'ok' else o2
        side = 'first' if o1.kind != 'ok' else 'second'
        f = exc_finding(S, bad, construct, '%s:%s:%s' % (mode, cond, side))
        res['diff'] = 1
        res['findings'].append(f)
        return res
    prob = same_tensor(norm1(o1.value), norm2(o2.value))
    if prob:
        res['diff'] = 1
        res['findings'].append(finding('SIB', construct, '%s:%s:%s' % (mode, cond, _coarse(prob[0])),
                                       'mode=%s Lcol=%d Lrow=%d HxW=%dx%d: %s' % (mode, Lc, Lr, H, W, prob[1]),
                                       anchor=anch, detail={'config': list(item)}))
    else:
        res['sample'] = {'config': dict(pair=which, mode=mode, filters=nf, Lcol=Lc, Lrow=Lr, H=H, W=W),
                         'verdict': 'identical operators'}
    for fi in S.take_findings():
        res['findings'].append(fi.as_dict())
    return res


def ops_cat5(yl, yh):
    """(N,C,H,W) and (N,C,3,H,W) -> (N,C,4,H,W)"""
    from .. import ops
    return ops.cat([yl[:, :, None], yh], dim=2)


# --------------------------------------------------------------- C13: SWT
def w_swt(S, item):
    mode, kind, Lc, Lr, H, W, J, nb, c = item
    res = {'cmp': 1, 'diff': 0, 'findings': [], 'sample': None}
    wave, roles = wave_spec(kind, Lc, Lr)
    kw = dict(J=J, wave=wave)
    if mode is not None:
        kw['mode'] = mode
    construct = 'SWTForward.forward'
    mname = mode or 'default'
    try:
        inst = S.construct(T2, 'SWTForward', **kw)
    except PyExc as e:
        res['diff'] = 1
        res['findings'].append(finding('RAISES', construct, '%s:constructor-raises-%s' % (mname, e.name), str(e)[:160],
                                       anchor=anchor(S, T2, 'SWTForward', '__init__')))
        return res
    b, x = base_tensor('x', nb, c, [H, W])
    o = S.run(S.method(inst, 'forward'), x)
    if o.kind != 'ok':
        res['diff'] = 1
        res['findings'].append(exc_finding(S, o, construct, mname))
        return res
    coeffs = o.value
    problems = []
    th = AxisTable.identity((b.id, 0), H)
    tw = AxisTable.identity((b.id, 1), W)
    if not isinstance(coeffs, list) or len(coeffs) != J:
        problems.append(('structure', 'result is not a list of %d tensors' % J))
    else:
        for j in range(J):
            y = coeffs[j]
            if not isinstance(y, DataT) or list(y.shape) != [nb, c, 4, H, W]:
                problems.append(('shape', 'level %d has shape %s, documented (N,C,4,H,W) = %s'
                                 % (j + 1, list(getattr(y, 'shape', [])), [nb, c, 4, H, W])))
                break
            rh = spec.swt_rule(H, Lc, j + 1)
            rw = spec.swt_rule(W, Lr, j + 1)
            loH, hiH = spec.apply_rule(th, rh, roles['col'][0]), spec.apply_rule(th, rh, roles['col'][1])
            loW, hiW = spec.apply_rule(tw, rw, roles['row'][0]), spec.apply_rule(tw, rw, roles['row'][1])
            bands = [(loH, loW), (hiH, loW), (loH, hiW), (hiH, hiW)]          # A, H, V, D
            exp = {(n, ci, k): expected_cell(b, (n, ci), list(bands[k]))
                   for n in range(nb) for ci in range(c) for k in range(4)}
            pr = compare_cells(y, exp, 'level %d' % (j + 1))
            if pr:
                problems += pr
                break
            # shift equivariance, read off the tables: circulant along both axes
            for idx in np.ndindex(*y.cells.shape):
                for t in y.cells[idx]:
                    for tb in t.tables:
                        if not is_circulant(tb):
                            problems.append(('not-circulant', 'level %d band %s is not shift-equivariant' % (j + 1, idx)))
                            break
            th, tw = loH, loW
    if problems:
        res['diff'] = 1
        what, msg = problems[0]
        res['findings'].append(finding('NF', construct, '%s:%s' % (mname, _coarse(what)),
                                       'mode=%s Lcol=%d Lrow=%d HxW=%dx%d J=%d: %s' % (mname, Lc, Lr, H, W, J, msg),
                                       anchor=anchor(S, LL, 'afb1d_atrous'), detail={'config': list(item)}))
    else:
        res['sample'] = {'config': dict(mode=mname, filters=kind, Lcol=Lc, Lrow=Lr, H=H, W=W, J=J),
                         'verdict': 'every level equals the swt2 rule (dilation 2^(j-1), periodic) and is circulant'}
    for fi in S.take_findings():
        res['findings'].append(fi.as_dict())
    return res


def is_circulant(tb):
    n = len(tb.forms)
    f0 = tb.forms[0]
    for k in range(1, n):
        d = {(m, (p + k) % n): c for (m, p), c in f0.d.items()}
        if len(d) != len(f0.d):
            # positions collided after wrap: compare via accumulated dict
            d = {}
            for (m, p), c in f0.d.items():
                key = (m, (p + k) % n)
                d[key] = d.get(key, 0) + c
        if d != tb.forms[k].d:
            return False
    return True


# ------------------------------------------------------ C17: orthogonality
def rec_to_dec(L):
    def fn(sym):
        r, i = sym
        if r == role(L, 'rec_lo'):
            return (role(L, 'dec_lo'), L - 1 - i)
        if r == role(L, 'rec_hi'):
            return (role(L, 'dec_hi'), L - 1 - i)
        return sym
    return fn


def w_orth(S, item):
    dim, L, size, J = item[:4]
    mode = item[4] if len(item) > 4 else 'periodization'      # 'per' is the documented alias
    res = {'cmp': 1, 'diff': 0, 'findings': [], 'sample': None}
    if dim == 1:
        f = S.construct(T1, 'DWT1DForward', J=J, wave=wname(L), mode=mode)
        g = S.construct(T1, 'DWT1DInverse', wave=wname(L), mode=mode)
        b, x = base_tensor('x', 1, 1, [size])
        sizes = [size]
    else:
        f = S.construct(T2, 'DWTForward', J=J, wave=wname(L), mode=mode)
        g = S.construct(T2, 'DWTInverse', wave=wname(L), mode=mode)
        b, x = base_tensor('x', 1, 1, list(size))
        sizes = list(size)
    construct = 'DWT%sInverse vs transpose(DWT%sForward)' % (('1D', '1D') if dim == 1 else ('', ''))
    o = S.run(S.method(f, 'forward'), x)
    if o.kind != 'ok':
        res['diff'] = 1
        res['findings'].append(exc_finding(S, o, construct, 'forward'))
        return res
    yl, yh = o.value
    outs = [yl] + list(yh)
    cots, cts = [], []
    for i, t in enumerate(outs):
        bc = Base('c%d' % i, t.dims, dtype=t.dtype)
        cots.append(bc)
        cts.append(bc.tensor(origin='arg'))
    o2 = S.run(S.method(g, 'forward'), (cts[0], cts[1:]))
    if o2.kind != 'ok':
        res['diff'] = 1
        res['findings'].append(exc_finding(S, o2, construct, 'inverse'))
        return res
    y = o2.value
    exp = adjoint_cells(outs, cots, b)
    prob = None
    if list(y.shape) != [1, 1] + sizes:
        prob = ('shape', 'inverse returns %s for input size %s' % (list(y.shape), sizes))
    else:
        sub = rec_to_dec(L)
        for idx, e in exp.items():
            act = tuple(Term(t.base, t.bchan, [tb.subst(sub) for tb in t.tables], t.coef) for t in y.cells[idx])
            if not cells_equal(act, e):
                prob = classify_adj(act, e, L)
                break
    if prob:
        res['diff'] = 1
        res['findings'].append(finding('ORTH', construct, 'periodization:%s' % prob[0],
                                       'L=%d size=%s J=%d: with rec = time-reversed dec the inverse is not the '
                                       'transpose of the forward: %s' % (L, size, J, prob[1]),
                                       anchor=anchor(S, LL, 'sfb1d'), detail={'config': list(item)}))
    else:
        res['sample'] = {'config': dict(dim=dim, L=L, size=size, J=J),
                         'verdict': 'inverse[g = rev(h)] == transpose(forward) cell by cell'}
    for fi in S.take_findings():
        res['findings'].append(fi.as_dict())
    return res
