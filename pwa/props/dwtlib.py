"""Work functions for the DWT family (C01 C02 C05 C10 C13 C14 C17 C19).

Each work function interprets one configuration and compares the abstract
result with the frozen reference (pwa.spec) or with a sibling implementation.
It returns a dict {cmp, diff, findings, sample}; findings are plain dicts
without a property id (the property driver adds it).
"""
import itertools

import numpy as np

from ..harness import (Session, base_tensor, base_tensor_dims, wname, cells_equal, expected_cell,
                       describe_table_diff, one_term, ArgList, user_filter)
from ..domain import AxisTable, Term, Form, DataT, Q2, ONE, canon_cell, Base
from ..errors import AnalysisError, PyExc
from .. import spec

T1 = 'pytorch_wavelets.dwt.transform1d'
T2 = 'pytorch_wavelets.dwt.transform2d'
LL = 'pytorch_wavelets.dwt.lowlevel'
MODES5 = ('zero', 'symmetric', 'reflect', 'periodic', 'periodization')


def role(L, which):
    return ('pywt', wname(L), which)


def finding(rule, construct, disc, msg, anchor=None, detail=None, path=None):
    d = {'rule': rule, 'construct': construct, 'discriminator': disc, 'msg': msg, 'severity': 'violation',
         'file': None, 'line': None, 'function': None, 'statement': None, 'call_path': list(path or []),
         'detail': detail}
    if anchor:
        d['file'], d['line'], d['function'] = anchor
    return d


def anchor(S, dotted, name, sub=None):
    """(file, line, function) of a repository definition, for reports"""
    import os
    m = S.module(dotted)
    obj = m.ns.get(name)
    node = None
    q = name
    if obj is not None and hasattr(obj, 'node'):
        node = obj.node
    elif obj is not None and hasattr(obj, 'ns') and sub:
        f = obj.ns.get(sub)
        f = getattr(f, 'func', f)
        node = getattr(f, 'node', None)
        q = name + '.' + sub
    if node is None:
        raise AnalysisError('anchor-missing', '%s.%s' % (dotted, q))
    return (os.path.relpath(m.path, S.repo), node.lineno, q)


def exc_finding(S, o, construct, disc_prefix):
    """finding for a call that raised / left the linear fragment"""
    e = o.exc
    loc = getattr(e, 'loc', None)
    if o.kind == 'violation':
        d = finding(e.rule, construct, '%s:%s' % (disc_prefix, e.rule), e.msg, path=getattr(e, 'path', None))
    else:
        d = finding('RAISES', construct, '%s:raises-%s' % (disc_prefix, e.name),
                    'the call raises %s: %s' % (e.name, e.msg[:160]))
    if loc is not None:
        d['file'], d['line'], d['function'], d['statement'] = loc.file, loc.line, loc.func, loc.text
    return d


def level_lengths(n, L, mode, J):
    out = [n]
    for _ in range(J):
        out.append(len(spec.dwt_rule(out[-1], L, mode)))
    return out


def size_cond(lens_in, L, mode):
    """coarse size class used in finding keys"""
    if mode == 'periodization':
        return 'Ne<L' if any((n + n % 2) < L for n in lens_in) else 'Ne>=L'
    return 'N<L' if any(n < L for n in lens_in) else 'N>=L'


def compare_cells(actual, exp_cells, label):
    """actual: DataT; exp_cells: dict e-index -> tuple(Term).  Returns list of (what, msg)."""
    out = []
    if actual.cells.shape != tuple(np.shape(np.empty(tuple(max(i[k] for i in exp_cells) + 1
                                                            for k in range(len(next(iter(exp_cells)))))))):
        return [('shape', '%s: enumerated shape %s differs from the reference' % (label, actual.cells.shape))]
    for idx, exp in exp_cells.items():
        act = actual.cells[idx]
        if cells_equal(act, exp):
            continue
        a1, e1 = one_term(act), one_term(exp)
        if a1 is not None and e1 is not None and a1[0] == e1[0] and a1[1] == e1[1] and len(a1[2]) == len(e1[2]):
            for ax, (ta, te) in enumerate(zip(a1[2], e1[2])):
                if ta != te:
                    what, msg = describe_table_diff(ta, te)
                    out.append((what, '%s cell %s axis %d: %s' % (label, idx, ax, msg)))
                    break
            else:
                out.append(('values', '%s cell %s differs' % (label, idx)))
        elif a1 is not None and e1 is not None and (a1[0] != e1[0] or a1[1] != e1[1]):
            out.append(('channel', '%s cell %s reads input slice %s, reference %s' % (label, idx, a1[1], e1[1])))
        else:
            out.append(('structure', '%s cell %s: %d product terms, reference %d'
                        % (label, idx, len(canon_cell(act)), len(canon_cell(exp)))))
        if len(out) >= 3:
            break
    return out


# ------------------------------------------------------------ forward 1-D
def w_fwd1d(S, item):
    mode, L, N, J, nb, c = item
    res = {'cmp': 0, 'diff': 0, 'findings': [], 'sample': None}
    inst = S.construct(T1, 'DWT1DForward', J=J, wave=wname(L), mode=mode)
    b, x = base_tensor('x', nb, c, [N])
    o = S.run(S.method(inst, 'forward'), x)
    lens = level_lengths(N, L, mode, J)
    cond = size_cond(lens[:-1], L, mode)
    construct = 'DWT1DForward.forward'
    res['cmp'] += 1
    if o.kind != 'ok':
        if o.kind == 'raises' and mode == 'reflect' and cond == 'N<L' and o.exc.name == 'RuntimeError':
            res['sample'] = {'config': list(item), 'outcome': 'raises (allowed: reflect, signal shorter than filter)'}
            return res
        res['diff'] += 1
        res['findings'].append(exc_finding(S, o, construct, '%s:%s' % (mode, cond)))
        return res
    yl, yh = o.value
    cur = AxisTable.identity((b.id, 0), N)
    problems = []
    if not isinstance(yh, list) or len(yh) != J or not isinstance(yl, DataT):
        problems.append(('structure', 'return value is not (tensor, list of %d tensors)' % J))
    else:
        for j in range(J):
            rule = spec.dwt_rule(len(cur), L, mode)
            lo = spec.apply_rule(cur, rule, role(L, 'dec_lo'))
            hi = spec.apply_rule(cur, rule, role(L, 'dec_hi'))
            exp = {(n, ci): expected_cell(b, (n, ci), [hi]) for n in range(nb) for ci in range(c)}
            if not isinstance(yh[j], DataT) or list(yh[j].shape) != [nb, c, len(hi)]:
                problems.append(('shape', 'highpass level %d has shape %s, reference %s'
                                 % (j + 1, list(getattr(yh[j], 'shape', [])), [nb, c, len(hi)])))
                break
            problems += compare_cells(yh[j], exp, 'highpass level %d' % (j + 1))
            cur = lo
        if not problems:
            exp = {(n, ci): expected_cell(b, (n, ci), [cur]) for n in range(nb) for ci in range(c)}
            if list(yl.shape) != [nb, c, len(cur)]:
                problems.append(('shape', 'lowpass has shape %s, reference %s' % (list(yl.shape), [nb, c, len(cur)])))
            else:
                problems += compare_cells(yl, exp, 'lowpass')
    if problems:
        res['diff'] += 1
        what, msg = problems[0]
        res['findings'].append(finding('NF', construct, '%s:%s:%s' % (mode, cond, _coarse(what)),
                                       'mode=%s L=%d N=%d J=%d: %s' % (mode, L, N, J, msg),
                                       anchor=anchor(S, LL, 'afb1d'), detail={'config': list(item), 'all': problems[:5]}))
    else:
        res['sample'] = {'config': dict(mode=mode, L=L, N=N, J=J), 'lowpass_len': len(cur),
                         'lowpass_form_at_0': repr(cur.forms[0])[:300]}
    for f in S.take_findings():
        res['findings'].append(f.as_dict())
    return res


def _coarse(what):
    return {'boundary': 'values', 'offset': 'values', 'filter': 'values'}.get(what, what)


# ------------------------------------------------------------ forward 2-D
def wave_spec(kind, Lc, Lr):
    """returns (wave argument, roles dict axis-> (lo role, hi role)) for analysis ('dec') filters"""
    if kind == 'name':
        return wname(Lc), {'col': (role(Lc, 'dec_lo'), role(Lc, 'dec_hi')), 'row': (role(Lc, 'dec_lo'), role(Lc, 'dec_hi'))}
    if kind == 'tuple2':
        w = (user_filter('0', Lc), user_filter('1', Lc))
        return w, {'col': (('user', '0'), ('user', '1')), 'row': (('user', '0'), ('user', '1'))}
    if kind == 'tuple4':
        w = (user_filter('0', Lc), user_filter('1', Lc), user_filter('2', Lr), user_filter('3', Lr))
        return w, {'col': (('user', '0'), ('user', '1')), 'row': (('user', '2'), ('user', '3'))}
    raise ValueError(kind)


def wave_spec_rec(kind, Lc, Lr):
    if kind == 'name':
        return wname(Lc), {'col': (role(Lc, 'rec_lo'), role(Lc, 'rec_hi')), 'row': (role(Lc, 'rec_lo'), role(Lc, 'rec_hi'))}
    return wave_spec(kind, Lc, Lr)


def expected_fwd2d_level(th, tw, Lc, Lr, mode, roles):
    rh = spec.dwt_rule(len(th), Lc, mode)
    rw = spec.dwt_rule(len(tw), Lr, mode)
    loH = spec.apply_rule(th, rh, roles['col'][0])
    hiH = spec.apply_rule(th, rh, roles['col'][1])
    loW = spec.apply_rule(tw, rw, roles['row'][0])
    hiW = spec.apply_rule(tw, rw, roles['row'][1])
    # band order: ll | lh (pywt cH: detail along the vertical axis), hl (cV), hh (cD)
    return (loH, loW), [(hiH, loW), (loH, hiW), (hiH, hiW)]


def w_fwd2d(S, item):
    mode, kind, Lc, Lr, H, W, J, nb, c = item
    res = {'cmp': 1, 'diff': 0, 'findings': [], 'sample': None}
    wave, roles = wave_spec(kind, Lc, Lr)
    inst = S.construct(T2, 'DWTForward', J=J, wave=wave, mode=mode)
    b, x = base_tensor('x', nb, c, [H, W])
    o = S.run(S.method(inst, 'forward'), x)
    lh_ = level_lengths(H, Lc, mode, J)
    lw_ = level_lengths(W, Lr, mode, J)
    if mode == 'periodization':
        cond = 'Ne<L' if 'Ne<L' in (size_cond(lh_[:-1], Lc, mode), size_cond(lw_[:-1], Lr, mode)) else 'Ne>=L'
    else:
        cond = 'N<L' if 'N<L' in (size_cond(lh_[:-1], Lc, mode), size_cond(lw_[:-1], Lr, mode)) else 'N>=L'
    construct = 'DWTForward.forward' + ('[4-filter]' if kind == 'tuple4' else '')
    if o.kind != 'ok':
        if o.kind == 'raises' and mode == 'reflect' and cond == 'N<L' and o.exc.name == 'RuntimeError':
            res['sample'] = {'config': list(item), 'outcome': 'raises (allowed: reflect, signal shorter than filter)'}
            return res
        res['diff'] = 1
        res['findings'].append(exc_finding(S, o, construct, '%s:%s' % (mode, cond)))
        return res
    yl, yh = o.value
    th = AxisTable.identity((b.id, 0), H)
    tw = AxisTable.identity((b.id, 1), W)
    problems = []
    if not isinstance(yh, list) or len(yh) != J or not isinstance(yl, DataT):
        problems.append(('structure', 'return value is not (tensor, list of %d tensors)' % J))
    else:
        for j in range(J):
            (loH, loW), bands = expected_fwd2d_level(th, tw, Lc, Lr, mode, roles)
            shape = [nb, c, 3, len(loH), len(loW)]
            if not isinstance(yh[j], DataT) or list(yh[j].shape) != shape:
                problems.append(('shape', 'highpass level %d has shape %s, reference %s'
                                 % (j + 1, list(getattr(yh[j], 'shape', [])), shape)))
                break
            exp = {(n, ci, k): expected_cell(b, (n, ci), list(bands[k]))
                   for n in range(nb) for ci in range(c) for k in range(3)}
            problems += compare_cells(yh[j], exp, 'highpass level %d' % (j + 1))
            th, tw = loH, loW
        if not problems:
            shape = [nb, c, len(th), len(tw)]
            if list(yl.shape) != shape:
                problems.append(('shape', 'lowpass has shape %s, reference %s' % (list(yl.shape), shape)))
            else:
                exp = {(n, ci): expected_cell(b, (n, ci), [th, tw]) for n in range(nb) for ci in range(c)}
                problems += compare_cells(yl, exp, 'lowpass')
    if problems:
        res['diff'] = 1
        what, msg = problems[0]
        res['findings'].append(finding('NF', construct, '%s:%s:%s' % (mode, cond, _coarse(what)),
                                       'mode=%s filters=%s Lcol=%d Lrow=%d HxW=%dx%d J=%d: %s'
                                       % (mode, kind, Lc, Lr, H, W, J, msg),
                                       anchor=anchor(S, LL, 'AFB2D', 'forward'),
                                       detail={'config': list(item), 'all': problems[:5]}))
    else:
        res['sample'] = {'config': dict(mode=mode, filters=kind, Lcol=Lc, Lrow=Lr, H=H, W=W, J=J),
                         'lowpass_shape': [len(th), len(tw)]}
    for f in S.take_findings():
        res['findings'].append(f.as_dict())
    return res
