"""C05 - DWT back-propagation is the exact adjoint, for every subset of inputs requiring grad."""
from ..run import Result
from ..parallel import pmap
from ..errors import AnalysisError
from . import dwtlib
from .c01 import ASSUME


def configs(ctx):
    items = []
    lens = [2, 4, 6, 8] if ctx.quick else [2, 4, 6, 8, 10, 12, 16, 20]
    for mode in dwtlib.MODES5:
        for L in lens:
            n1 = sorted({2, 3, L - 1 if L > 3 else 2, L, L + 1, 2 * L, 2 * L + 1, 3 * L + 2, 3 * L + 5, 4 * L})
            if not ctx.quick:
                n1 = sorted(set(n1) | set(range(2, 3 * L + 8)))
            for n in n1:
                items.append(('AFB1D', mode, L, n, 1))
                for mask in (1, 2, 3):
                    items.append(('SFB1D', mode, L, max(1, n // 2 + L // 2), mask))
            s2 = [(3 * L + 2, 3 * L + 5), (3 * L + 5, 2), (L, 3 * L + 4), (5, 5), (3 * L + 3, 3 * L + 3)]
            if not ctx.quick:
                s2 += [(2 * L, L - 1 if L > 2 else 2), (7, 3 * L + 2), (3 * L + 4, 3 * L + 4), (2, 2)]
            for hw in s2:
                items.append(('AFB2D', mode, L, hw, 1))
                for mask in (1, 2, 3):
                    items.append(('SFB2D', mode, L, (hw[0] // 2 + L // 2, hw[1] // 2 + L // 2), mask))
            # separate column / row filters: the saved-filter order matters only here
            for hw in s2[:2]:
                items.append(('AFB2D/4', mode, L, (hw[0] + 6, hw[1] + 6), 1))
                for mask in (1, 2, 3):
                    items.append(('SFB2D/4', mode, L, (hw[0] // 2 + L // 2 + 1, hw[1] // 2 + L // 2 + 1), mask))
    return items


def check(ctx):
    items = configs(ctx)
    rs = pmap(dwtlib.w_adj, ctx.repo, items, ctx.jobs)
    findings, samples = [], []
    obl = dis = 0
    per_fn = {}
    for it, r in zip(items, rs):
        obl += r['cmp']
        per_fn[it[0]] = per_fn.get(it[0], 0) + 1
        if not r['diff']:
            dis += r['cmp']
        for f in r['findings']:
            f['property'] = 'C05'
            f['key'] = 'C05|%s|%s|%s' % (f['rule'], f['construct'], f['discriminator'])
            findings.append(f)
        if r['sample'] and len(samples) < 6:
            samples.append(r['sample'])
    if not {'AFB1D', 'AFB2D', 'SFB1D', 'SFB2D', 'AFB2D/4', 'SFB2D/4'} <= set(per_fn) or obl < 100:
        raise AnalysisError('instance-count', 'adjoint obligations: %r' % per_fn)
    cov = {'obligations': obl, 'discharged': dis, 'samples': samples or [{'note': 'none discharged'}],
           'per_function': per_fn,
           'checker_cmd': '/venv/bin/python -m pwa check C05 --tier %s' % ctx.tier,
           'trusted_base': ['pwa/ops.py primitive table', 'pwa/domain.py table transposition'],
           'explanation': 'one obligation = (autograd Function, mode, filter length, size, subset of inputs requiring '
                          'grad): the forward is interpreted on symbolic inputs through the public module, the '
                          'hand-written backward is interpreted on symbolic cotangents, and every returned gradient '
                          'that is required must equal, cell by cell and for all filter values, the transpose of '
                          'the forward operator; arity and None-ness of the returned tuple are checked as autograd '
                          'would. Undischarged obligations are reported as findings (known or new).'}
    return Result('other', cov, findings, assumptions=ASSUME)
