"""Configuration grids (DESIGN.md section 4)."""

QUICK_LENS = [2, 4, 6, 8, 10, 12, 16, 20]


def pywt_lens():
    """distinct dec_len of PyWavelets' discrete wavelets: table data read from the installed package"""
    import pywt
    return sorted({pywt.Wavelet(n).dec_len for n in pywt.wavelist(kind='discrete')})


def lens_for(ctx):
    if ctx.quick:
        return list(QUICK_LENS)
    return pywt_lens()


def levels_for(ctx, L):
    # monomial count per output position grows like L^J: keep the symbolic forms small
    if L <= 4:
        return 3 if ctx.quick else 4
    if L <= 8:
        return 2 if ctx.quick else 3
    if L <= 20:
        return 1 if ctx.quick else 2
    return 1


def sizes1(ctx, L):
    if ctx.quick:
        return list(range(2, 49))
    return list(range(2, L + 35))


def sizes2(ctx, L):
    base = sorted({2, 3, 4, 5, max(2, L - 1), L, L + 1, L + 2, 2 * L + 1, 2 * L + 4, 15, 16})
    if not ctx.quick and L > 12:
        # long filters: the per-axis behaviour is covered by the 1-D grid; keep the 2-D product small
        base = sorted({2, 3, max(2, L - 1), L + 1, 2 * L + 1, L + 2, 16}) if L <= 40 else sorted({3, L - 1, L + 2, 2 * L + 1})
    if ctx.quick:
        base = sorted({2, 3, max(2, L - 1), L + 1, L + 2, 13, 16})
    out = []
    for h in base:
        for w in base:
            out.append((h, w))
    if ctx.quick:
        # keep every (parity, N<>L, H<>W) class but thin the rest
        keep = []
        seen = set()
        for (h, w) in out:
            k = (h % 2, w % 2, h < L, w < L, (h > w) - (h < w))
            if k not in seen or (h * 7 + w) % 3 == 0:
                seen.add(k)
                keep.append((h, w))
        out = keep
    return out


def stable_hash(*parts):
    """deterministic across processes (the builtin hash of str is salted per process)"""
    import zlib
    return zlib.crc32(repr(parts).encode())
