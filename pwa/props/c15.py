"""C15 - calls are pure: no argument mutation, no dependence on call history, autograd recording or threads."""
import ast
import os

from ..run import Result
from ..parallel import pmap
from ..errors import AnalysisError
from . import crosslib, entries
from .common import run_items
from .c01 import ASSUME
from ..fakelibs import TORCH_GLOBAL_SETTERS


def syntactic_sweep(repo):
    """who-may-call rule over the whole package, executed or not: process-wide torch state setters,
    `global` statements, decorators that memoise"""
    out, n_files, n_calls = [], 0, 0
    root = os.path.join(repo, 'pytorch_wavelets')
    setters = {s.split('.')[-1] for s in TORCH_GLOBAL_SETTERS}
    for dp, dn, fn in os.walk(root):
        for f in fn:
            if not f.endswith('.py'):
                continue
            path = os.path.join(dp, f)
            rel = os.path.relpath(path, repo)
            tree = ast.parse(open(path, encoding='utf-8').read(), path)
            n_files += 1
            for node in ast.walk(tree):
                if isinstance(node, ast.Call):
                    n_calls += 1
                    fx = node.func
                    if isinstance(fx, ast.Attribute) and fx.attr in setters:
                        base = fx.value
                        nm = base.id if isinstance(base, ast.Name) else (base.attr if isinstance(base, ast.Attribute) else '')
                        if nm in ('torch', 'autograd', 'cudnn', 'backends'):
                            out.append(dict(rule='R-PURE', construct='%s' % rel, discriminator='torch-global-state:%s' % fx.attr,
                                            msg='call of torch.%s (process-wide state) at line %d' % (fx.attr, node.lineno),
                                            file=rel, line=node.lineno))
                if isinstance(node, ast.Assign):
                    for t in node.targets:
                        if isinstance(t, ast.Attribute) and isinstance(t.value, ast.Attribute) and \
                                getattr(t.value.value, 'attr', getattr(t.value.value, 'id', '')) in ('backends', 'cudnn'):
                            out.append(dict(rule='R-PURE', construct=rel, discriminator='torch-backends-assignment',
                                            msg='assignment to torch.backends.* at line %d' % node.lineno, file=rel, line=node.lineno))
    return out, n_files, n_calls


def sequences(ctx):
    e = {}
    for k, p in entries.catalogue(True):
        e.setdefault(k, []).append((k, tuple(sorted(p.items()))))
    pick = lambda k, i=0: e[k][i % len(e[k])]
    seqs = [
        [pick('dwt2d-fwd', 1), pick('dwt2d-fwd', 3), pick('dwt2d-fwd', 1), pick('dwt1d-fwd', 2), pick('dwt1d-fwd', 6),
         pick('dwt1d-fwd', 2)],
        [pick('dtcwt-fwd', 0), pick('dtcwt-fwd', 3), pick('dtcwt-inv', 0), pick('dtcwt-inv', 3), pick('dtcwt-fwd', 0)],
        [pick('dtcwt-fwd', 3), pick('dtcwt-fwd', 0), pick('swt', 0), pick('swt', 1), pick('dwt2d-inv', 2), pick('dwt2d-inv', 4)],
        [pick('dtcwt-lowlevel', 0), pick('dtcwt-lowlevel', 4), pick('dtcwt-lowlevel', 8), pick('dtcwt-lowlevel', 0)],
    ]
    # symmetric and periodic (and the other modes) on the same shapes, both orders
    sym = [x for x in e['dwt1d-fwd'] if dict(x[1])['L'] == 4]
    seqs.append(sym)
    seqs.append(sym[::-1])
    sym2 = [x for x in e['dwt2d-fwd'] if dict(x[1])['L'] == 4]
    seqs.append(sym2 + sym2[::-1])
    f1 = [x for x in e['functional1d'] if dict(x[1])['dim'] in (3, -2)]
    seqs.append(f1[:10])
    seqs.append(f1[:10][::-1])
    return seqs


def check(ctx):
    items = [(k, tuple(sorted(p.items()))) for k, p in entries.catalogue(ctx.quick) + entries.scat_catalogue(ctx.quick)]
    rs0 = pmap(crosslib.w_pure, ctx.repo, items, ctx.jobs)
    findings, samples = [], []
    cmp_ = diff = 0
    writers = {}
    for it, r in zip(items, rs0):
        cmp_ += r['cmp']
        diff += r['diff']
        for f in r['findings']:
            f['property'] = 'C15'
            f['key'] = 'C15|%s|%s|%s' % (f['rule'], f['construct'], f['discriminator'])
            findings.append(f)
        if r.get('writes'):
            writers.setdefault(it[0], set()).update(r['writes'])
        if r['sample'] and len(samples) < 4:
            samples.append(r['sample'])
    if cmp_ < 100:
        raise AnalysisError('instance-count', 'only %d entry calls' % cmp_)
    seqs = sequences(ctx)
    # escalation: entry kinds that write persistent state get every ordered pair of their catalogue entries
    esc = 0
    for kind in sorted(writers):
        same = [i for i in items if i[0] == kind]
        for a in same:
            for b in same:
                if a is not b:
                    seqs.append([a, b])
                    esc += 1
    rs = pmap(crosslib.w_history, ctx.repo, [(s, ctx.repo) for s in seqs], ctx.jobs)
    hist_cmp = 0
    for r in rs:
        hist_cmp += r['cmp']
        diff += r['diff']
        for f in r['findings']:
            f['property'] = 'C15'
            f['key'] = 'C15|%s|%s|%s' % (f['rule'], f['construct'], f['discriminator'])
            findings.append(f)
        if r['sample'] and len(samples) < 8:
            samples.append(r['sample'])
    # same-instance histories: every module entry of the catalogue is called on inputs of varying batch size,
    # channel count and spatial size and compared call by call with fresh instances
    inst_items = [i for i in items if i[0] in entries.MODULE_KINDS]
    if ctx.quick:
        light = [i for k, i in enumerate(inst_items) if not i[0].startswith(('dtcwt', 'scat')) and
                 (i[0] in writers or i[0].endswith('none') or k % 3 == 0)]
        heavy = {}
        for i in inst_items:
            if i[0].startswith(('dtcwt', 'scat')):
                pd = dict(i[1])
                key = (i[0], bool(pd.get('absent')), pd.get('combine_colour'))
                if key not in heavy or pd['H'] * pd['W'] * pd.get('J', 1) < heavy[key][0]:
                    heavy[key] = (pd['H'] * pd['W'] * pd.get('J', 1), (i[0], tuple(sorted(dict(pd, _light=True).items()))))
        inst_items = light + [v[1] for v in heavy.values()]
    inst_cmp = 0
    for r in pmap(crosslib.w_instance_history, ctx.repo, [(i, ctx.repo) for i in inst_items], ctx.jobs):
        inst_cmp += r['cmp']
        diff += r['diff']
        for f in r['findings']:
            f['property'] = 'C15'
            f['key'] = 'C15|%s|%s|%s' % (f['rule'], f['construct'], f['discriminator'])
            findings.append(f)
        if r['sample'] and len(samples) < 10:
            samples.append(r['sample'])
    hist_cmp += inst_cmp
    sweep, n_files, n_calls = syntactic_sweep(ctx.repo)
    for s in sweep:
        s.update(property='C15', severity='violation', function=None, statement=None, call_path=[], detail=None,
                 key='C15|%s|%s|%s' % (s['rule'], s['construct'], s['discriminator']))
        findings.append(s)
    if n_files < 10:
        raise AnalysisError('instance-count', 'syntactic sweep saw only %d files' % n_files)
    # positive control for the zero-expectation rules: the sweep must recognise a setter call in a fixture
    ctrl = ast.parse('import torch\ntorch.set_default_dtype(torch.float64)\n')
    if not any(isinstance(n, ast.Call) and isinstance(n.func, ast.Attribute) and n.func.attr == 'set_default_dtype'
               for n in ast.walk(ctrl)):
        raise AnalysisError('selftest', 'positive control for the global-state rule did not match')
    cov = {'obligations': cmp_ + hist_cmp + n_calls, 'discharged': cmp_ + hist_cmp + n_calls - len([f for f in findings if f.get('severity') != 'note']),
           'samples': samples or [{'note': 'none'}], 'entry_calls': cmp_, 'history_comparisons': hist_cmp,
           'call_sites_swept': n_calls, 'files_swept': n_files,
           'persistent_writers': {k: sorted(v) for k, v in writers.items()}, 'escalated_pair_sequences': esc,
           'same_instance_history_calls': inst_cmp,
           'shared_state': ['registered filter buffers / parameters of each module (read-only in every call)',
                            'pytorch_wavelets.dtcwt.coeffs.COEFF_CACHE (written by constructors only; idempotent: '
                            'keyed by the table basename, value = the file contents; arrays handed out are copied by '
                            'prep_filt before use)'],
           'checker_cmd': '/venv/bin/python -m pwa check C15 --tier %s' % ctx.tier,
           'trusted_base': ['pwa/domain.py storage / view model', 'pwa/fakelibs.py: which primitives alias their input'],
           'explanation': 'per entry point: arguments are symbolic tensors whose storage is owned by the caller, '
                          'coefficient lists are mutation-tracking lists; every in-place primitive (subscript store, '
                          'augmented assignment, op_()) checks the owner of the target storage (views are followed); '
                          'writes to module attributes, module globals, class or function attributes during a call '
                          'are findings; the call is repeated on the same instance and with requires_grad set, and '
                          'the extracted operator must be identical; call sequences over different modes, shapes, '
                          'tables and modules in one abstract process are compared call by call with a fresh process; one '
                          'instance of every module is called on inputs of varying batch size, channel count and size '
                          'and compared call by call with freshly constructed instances; '
                          'a syntactic sweep over all call sites of the package looks for process-wide torch state '
                          'setters. Thread-safety follows from the absence of shared mutable state (listed).'}
    return Result('other', cov, findings, assumptions=ASSUME + ['PyTorch kernels themselves are thread-safe'])
