"""Shared driver plumbing: run work items, tag findings with the property, assemble evidence."""
from ..parallel import pmap
from ..errors import AnalysisError


def run_items(ctx, prop, groups, min_cmp=20):
    """groups: list of (worker, items).  Returns (findings, cmp, diff, samples, per_group_counts)"""
    findings, samples = [], []
    cmp_ = diff = 0
    counts = []
    for worker, items in groups:
        rs = pmap(worker, ctx.repo, items, ctx.jobs)
        counts.append(len(items))
        took = 0
        for r in rs:
            cmp_ += r['cmp']
            diff += r['diff']
            for f in r['findings']:
                f['property'] = prop
                f['key'] = '%s|%s|%s|%s' % (prop, f['rule'], f['construct'], f['discriminator'])
                findings.append(f)
            if r['sample'] and took < 3:
                samples.append(r['sample'])
                took += 1
    if cmp_ < min_cmp:
        raise AnalysisError('instance-count', 'only %d comparisons were made (minimum %d)' % (cmp_, min_cmp))
    return findings, cmp_, diff, samples[:8], counts
