"""C04 - DTCWT perfect reconstruction with symmetric extension."""
from ..run import Result
from . import dtlib
from .common import run_items
from .grids import stable_hash
from .c03 import ASSUME


def configs(ctx):
    items = []
    sizes = [(2, 2), (4, 6), (7, 9), (10, 12), (16, 16), (13, 8)] if ctx.quick else \
        [(2, 2), (3, 3), (4, 6), (5, 8), (7, 9), (10, 12), (12, 10), (16, 16), (13, 8), (6, 14), (9, 15), (20, 18),
         (24, 20), (32, 12), (11, 11), (18, 30), (8, 40), (28, 28), (17, 23), (4, 4), (6, 6), (26, 14)]
    for b in dtlib.BIORT:
        for q in dtlib.QSHIFT:
            for i, (H, W) in enumerate(sizes):
                if ctx.quick and (stable_hash(b, q, 'pr') + i) % 3:
                    continue
                J = 3 if max(H, W) >= 8 and q not in ('qshift_c', 'qshift_d') and b != 'near_sym_b' else 2
                items.append((b, q, H, W, J))
    # the same tables handed in as arrays ("biort (str or tuple of arrays)"), in every array form the preparation
    # code accepts, on either side: reconstruction must not depend on how the filters were spelled
    for k, (ffwd, finv) in enumerate(((None, 'row'), ('row', None), ('col', 'flat'), ('list', 'row'), ('flat', 'col'))):
        b, q = [('near_sym_a', 'qshift_a'), ('legall', 'qshift_06'), ('antonini', 'qshift_b')][k % 3]
        items.append((b, q, 12, 16, 3, ffwd, finv))
        if not ctx.quick:
            items.append(('near_sym_b', 'qshift_c', 10, 12, 2, ffwd, finv))
    items.append(('default', 'default', 16, 24, 3))
    items.append(('default', 'default', 10, 13, 3))
    return items


def check(ctx):
    items = configs(ctx)
    findings, cmp_, diff, samples, counts = run_items(ctx, 'C04', [(dtlib.w_dt_pr, items)], min_cmp=20)
    cov = {'obligations': cmp_, 'discharged': cmp_ - diff, 'samples': samples or [{'note': 'none'}],
           'filter_pairs': len({(i[0], i[1]) for i in items}),
           'checker_cmd': '/venv/bin/python -m pwa check C04 --tier %s' % ctx.tier,
           'trusted_base': ['pwa/ops.py primitive table', 'shipped .npz tables read as data'],
           'explanation': 'forward and inverse modules are interpreted separately on symbolic inputs (image; '
                          'lowpass and subband tensors of the pyramid shapes the forward produced); both extracted '
                          'operators are evaluated at the shipped table values and multiplied: sum over all subbands '
                          'of S_band * A_band must equal E = identity on the image with edge replication on the '
                          'extra row/column of an odd size (all inputs at once). This covers the crop / extend '
                          'bookkeeping between levels for sizes in every class of H mod 4, W mod 4. Operator '
                          'equality with the reference transform itself is C03 / C11.'}
    return Result('other', cov, findings, assumptions=ASSUME)
