"""Cross-cutting structural checks over the entry-point catalogue: C07 (linearity, per-slice action),
C15 (purity / history independence), C16 (dtype provenance, stride independence)."""
import itertools

import numpy as np

from ..harness import Session, cells_equal
from ..domain import DataT, Term, canon_cell
from ..errors import AnalysisError, PyExc
from .dwtlib import finding, exc_finding, anchor
from . import entries


def _params(p):
    return dict(p)


def chan_dims(kind, p, t):
    """(position of batch dim, position of channel dim) of output tensor t"""
    if kind == 'dtcwt-fwd' and t.ndim == 6:
        o6, r6 = p['o_dim'] % 6, p['ri_dim'] % 6
        rest = [d for d in range(6) if d not in (o6, r6)]
        return rest[0], rest[1]
    return 0, 1


def op_signature(cell):
    """operator of a cell with the input slice abstracted away: frozenset of (base, rest of bchan, tables, coef)"""
    return frozenset((t[0], t[1][2:], t[2], t[3]) for t in canon_cell(cell))


def slice_facts(kind, p, outs, nb, c):
    """returns (problems, signature dict rest-index -> operator) for per-slice action"""
    problems = []
    sig = {}
    for ti, t in enumerate(outs):
        if t.ndim < 2 or t.is_zero():
            continue
        dn, dc = chan_dims(kind, p, t)
        e_axes = t.e_axes()
        if dn not in e_axes or dc not in e_axes:
            problems.append(('layout', 'output %d: batch / channel dims are not enumerated dims' % ti))
            continue
        en, ec = e_axes.index(dn), e_axes.index(dc)
        cout = t.dims[dc][1]
        if t.dims[dn][1] != nb or cout % c:
            problems.append(('layout', 'output %d has shape %s for batch %d and %d channels' % (ti, list(t.shape), nb, c)))
            continue
        k = cout // c
        for idx in np.ndindex(*t.cells.shape):
            cell = t.cells[idx]
            if not cell:
                continue
            n_out, c_out = idx[en], idx[ec]
            want = (n_out, c_out // k)
            for term in cell:
                if term.base.role in ('const', 'uninit'):
                    problems.append(('offset' if term.base.role == 'const' else 'uninitialised',
                                     'output %d, slice (n=%d, c=%d) contains %s: T(0) != 0, the map is not linear'
                                     % (ti, n_out, c_out, term.base.name)))
                    break
                got = tuple(term.bchan[:2])
                if got != want:
                    problems.append(('leak', 'output %d, slice (n=%d, c=%d) reads input slice (n=%d, c=%d)'
                                     % (ti, n_out, c_out, got[0], got[1])))
                    break
            rest = (ti,) + tuple(v for a, v in enumerate(idx) if a not in (en, ec)) + (c_out % k,)
            s = op_signature(cell)
            # replace base ids by nothing: compare operators structurally via tables only
            s = frozenset((r, tabs_key(tb), cf) for (_, r, tb, cf) in s)
            if rest in sig:
                if sig[rest] != s:
                    problems.append(('not-identical', 'output %d: the operator of slice (n=%d, c=%d) differs from the '
                                     'one of another slice (band index %s)' % (ti, n_out, c_out, rest[1:])))
            else:
                sig[rest] = s
            if len(problems) > 3:
                return problems, sig
    return problems, sig


def tabs_key(tables):
    return tuple((tb.base_axis[1], tb.forms) for tb in tables)


def w_linear(S, item):
    """C07 facts for one catalogue entry"""
    kind, ptuple = item
    p = dict(ptuple)
    res = {'cmp': 1, 'diff': 0, 'findings': [], 'sample': None}
    sigs = []
    label = kind
    shapes = ((2, 3), (1, 1)) if not p.get('tiny') else ((7, 2), (2, 7), (1, 1))
    for (nb, c) in shapes:
        try:
            f, args, ins, label = entries.build(S, kind, p, nb=nb, c=c)
        except PyExc as e:
            res['diff'] = 1
            res['findings'].append(finding('RAISES', kind, 'constructor-raises-%s' % e.name, str(e)[:160]))
            return res
        o = S.run(f, *args)
        cfg = ','.join('%s=%s' % kv for kv in sorted(p.items()) if kv[0] in ('mode', 'fn', 'dim', 'biort'))
        if o.kind == 'raises':
            # a transform that raises on this configuration computes nothing: not a linearity question
            if (nb, c) == shapes[0]:
                res['sample'] = {'entry': label, 'params': p, 'outcome': 'raises %s (not a linearity obligation)' % o.exc.name}
            S.take_findings()
            return res
        if o.kind == 'violation':
            res['diff'] = 1
            d = exc_finding(S, o, label, cfg)
            res['findings'].append(d)
            S.take_findings()
            return res
        outs = entries.flatten(o.value)
        nl = [t for t in outs if getattr(t, 'nl', False)]
        if nl:
            res['diff'] = 1
            res['findings'].append(finding('R-LIN', label, cfg + ':nonlinear', 'an output is a non-linear function of the input'))
            return res
        problems, sig = slice_facts(kind, p, outs, nb, c)
        if problems:
            res['diff'] = 1
            what, msg = problems[0]
            res['findings'].append(finding('R-SLICE', label, '%s:%s' % (cfg, what),
                                           '%s with %s (N=%d, C=%d): %s' % (label, p, nb, c, msg)))
            S.take_findings()
            return res
        sigs.append(sig)
    if any(sg.keys() != sigs[0].keys() or any(sigs[0][k] != sg[k] for k in sigs[0]) for sg in sigs[1:]):
        res['diff'] = 1
        res['findings'].append(finding('R-SLICE', label, 'batch-size-dependence',
                                       '%s with %s: the per-slice operator differs between the batch / channel counts %s'
                                       % (label, p, list(shapes))))
    else:
        res['sample'] = {'entry': label, 'params': p, 'slices_checked': 6, 'distinct_band_operators': len(sigs[0]),
                         'verdict': 'linear forms only; every output slice reads its own input slice through one operator'}
    S.take_findings()
    S.take_events()
    return res


# ----------------------------------------------------------------------- C15
def fingerprint(outs, ins, rb_offset=0):
    """canonical, session-independent description of a result"""
    from .. import nonlin
    bmap = {b.id: i for i, (b, t) in enumerate(ins)}
    rb_index = {b.id: i - rb_offset for i, b in enumerate(nonlin.REBASE_LOG)}

    def bid(i):
        if i in bmap:
            return bmap[i]
        if i in rb_index:
            return ('rb', rb_index[i])
        return -1

    def fp_terms(cell):
        return frozenset((bid(x[0]), x[1], tuple((bid(tb.base_axis[0]), tb.base_axis[1], tb.forms) for tb in x[2]), x[3])
                         for x in canon_cell(cell))

    def fp_atom(a):
        if a.kind == 'lin':
            return ('lin', fp_terms(a.payload))
        if a.kind == 'param':
            return ('param', a.key)
        if isinstance(a.payload, nonlin.Sum):
            return ('sum', fp_sum(a.payload))
        return ('op', repr(a.key[1:2]))

    def fp_sum(s):
        return frozenset((frozenset((fp_atom(a), e) for a, e in m), c) for m, c in s.d.items())

    fp = []
    for t in outs:
        if not isinstance(t, DataT):
            fp.append(repr(type(t)))
            continue
        cells = []
        for idx in np.ndindex(*t.cells.shape):
            c = t.cells[idx]
            cells.append((idx, fp_sum(c) if isinstance(c, nonlin.Sum) else fp_terms(c)))
        fp.append((tuple(t.dims), tuple(cells)))
    return tuple(fp)


def snapshot_inputs(ins):
    return [(t.dims[:], t.cells.copy(), t.storage.version) for b, t in ins]


def inputs_changed(ins, snap):
    for (b, t), (dims, cells, ver) in zip(ins, snap):
        if t.dims != dims or t.storage.version != ver:
            return True
        for idx in np.ndindex(*cells.shape):
            if t.cells[idx] is not cells[idx] and not cells_equal(t.cells[idx], cells[idx]):
                return True
    return False


PERSISTENT_WRITE_EVENTS = ('global-write', 'global-container-write', 'funcattr-write', 'classattr-write',
                           'module-attr-write')


def _with_nl(fn):
    def wrapped(S, item):
        from ..domain import HOOKS
        from .. import nonlin
        is_scat = item[0].startswith('scat')
        if is_scat:
            HOOKS['allow_nl'] = True
        try:
            return fn(S, item)
        finally:
            if is_scat:
                HOOKS['allow_nl'] = False
                del nonlin.REBASE_LOG[:]
                nonlin.REBASED.clear()
    wrapped.__name__ = fn.__name__
    wrapped.__qualname__ = fn.__qualname__
    return wrapped


def w_pure(S, item):
    return _with_nl(_w_pure)(S, item)


def _w_pure(S, item):
    """C15 facts for one catalogue entry: argument mutation, persistent writes during the call,
    dependence on requires_grad, repeatability on the same module instance."""
    kind, ptuple = item
    p = dict(ptuple)
    res = {'cmp': 0, 'diff': 0, 'findings': [], 'sample': None}
    fps = []
    label = kind
    writes = []
    for rg in (False, True):
        try:
            f, args, ins, label = entries.build(S, kind, p, nb=1, c=2 if 'combine_colour' not in p else 3, requires_grad=rg)
        except PyExc as e:
            res['cmp'] += 1
            res['diff'] = 1
            res['findings'].append(finding('RAISES', kind, 'constructor-raises-%s' % e.name, str(e)[:160]))
            return res
        S.take_events()
        S.take_findings()
        snap = snapshot_inputs(ins)
        lists = [a for a in _iter_lists(args)]
        lsnap = [list(l) for l in lists]
        for rep in range(2):
            from .. import nonlin as _nl
            rb0 = len(_nl.REBASE_LOG)
            o = S.run(f, *args)
            res['cmp'] += 1
            evs = S.take_events()
            fnd = S.take_findings()
            for fi in fnd:
                d = fi.as_dict()
                d['construct'] = '%s:%s' % (label, d['construct'])
                res['findings'].append(d)
                res['diff'] = 1
            for e in evs:
                if e['kind'] in PERSISTENT_WRITE_EVENTS:
                    writes.append((e['kind'], e.get('target'), e['loc']))
            if o.kind == 'ok':
                from .. import ops as _ops
                for t_ in entries.flatten(o.value):
                    for role_, name_ in sorted(_ops.opaque_roles(t_)):
                        if role_ == 'uninit':
                            res['diff'] = 1
                            res['findings'].append(finding('R-PURE', label, 'result-reads-uninitialised-memory',
                                                           '%s with %s: part of the result is %s that is never '
                                                           'written: it depends on what the allocator hands out '
                                                           '(earlier calls, other threads)' % (label, p, name_)))
                fps.append((rg, rep, fingerprint(entries.flatten(o.value), ins, rb0)))
            elif o.kind == 'violation':
                fps.append((rg, rep, ('violation', o.exc.rule)))
            else:
                fps.append((rg, rep, ('raises', o.exc.name)))
            if inputs_changed(ins, snap):
                res['diff'] = 1
                res['findings'].append(finding('R-PURE', label, 'argument-tensor-changed',
                                               'an argument tensor differs after the call'))
            for l, s0 in zip(lists, lsnap):
                if len(l) != len(s0) or any(a is not b for a, b in zip(l, s0)):
                    res['diff'] = 1
                    res['findings'].append(finding('R-PURE', label, 'argument-list-changed',
                                                   'a coefficient list passed by the caller differs after the call'))
    # a persistent write is not by itself a violation (a correctly keyed memo table leaves results a function of
    # the arguments): it is reported as a note and makes the driver escalate the history exploration for this
    # entry kind.  Writes to module attributes of a frozen module are findings already (instance_setattr).
    res['writes'] = sorted({(k, str(t)) for k, t, loc in writes})
    for kind_, target, loc in writes[:3]:
        d = finding('R-PURE', label, 'persistent-write:%s' % (target,),
                    'persistent state %s is written during a transform call (%s); history exploration escalated'
                    % (target, kind_))
        d['severity'] = 'note'
        d['file'], d['line'], d['function'], d['statement'] = loc.file, loc.line, loc.func, loc.text
        res['findings'].append(d)
    base = fps[0][2]
    for rg, rep, fp in fps[1:]:
        if fp != base:
            res['diff'] = 1
            why = 'requires_grad of the inputs' if rg else 'an earlier identical call on the same module'
            res['findings'].append(finding('R-GRADFLAG' if rg else 'R-PURE', label,
                                           'result-depends-on-%s' % ('requires-grad' if rg else 'history'),
                                           '%s with %s: the result depends on %s' % (label, p, why)))
            break
    if not res['diff']:
        res['sample'] = {'entry': label, 'params': p, 'calls': len(fps),
                         'verdict': 'no argument mutation, no persistent write, same result with / without '
                                    'requires_grad and on repetition'}
    return res


def _iter_lists(args):
    for a in args:
        if isinstance(a, list):
            yield a
        elif isinstance(a, tuple):
            for x in _iter_lists(a):
                yield x


def w_history(S_unused, item):
    """C15: a call sequence in one abstract process vs each call alone in a fresh process.
    item = (sequence of (kind, params) entries, repo)"""
    seq, repo = item
    res = {'cmp': 0, 'diff': 0, 'findings': [], 'sample': None}
    shared = Session(repo)
    got = []
    for kind, ptuple in seq:
        p = dict(ptuple)
        try:
            f, args, ins, label = entries.build(shared, kind, p, nb=1, c=2)
            o = shared.run(f, *args)
            got.append((label, p, fingerprint(entries.flatten(o.value), ins) if o.kind == 'ok' else (o.kind, str(o.exc)[:60])))
        except PyExc as e:
            got.append((kind, p, ('constructor', e.name)))
    for i, (kind, ptuple) in enumerate(seq):
        p = dict(ptuple)
        fresh = Session(repo)
        try:
            f, args, ins, label = entries.build(fresh, kind, p, nb=1, c=2)
            o = fresh.run(f, *args)
            alone = fingerprint(entries.flatten(o.value), ins) if o.kind == 'ok' else (o.kind, str(o.exc)[:60])
        except PyExc as e:
            alone = ('constructor', e.name)
        res['cmp'] += 1
        if alone != got[i][2]:
            res['diff'] = 1
            prev = [g[0] for g in got[:i]]
            res['findings'].append(finding('R-PURE', got[i][0], 'history-dependence',
                                           '%s with %s gives a different result after the calls %s than in a fresh '
                                           'process' % (got[i][0], p, prev)))
    if not res['diff']:
        res['sample'] = {'sequence': [g[0] for g in got], 'verdict': 'each call equals the same call in a fresh process'}
    return res


def w_instance_history(S_unused, item):
    """C15: one module instance called on a sequence of inputs of different batch size, channel count and spatial
    size (and back) vs a freshly constructed instance for each call.  item = ((kind, params), repo)"""
    return _with_nl(_w_instance_history)(S_unused, (item[0][0], item))


def _w_instance_history(S_unused, wrapped):
    (kind, ptuple), repo = wrapped[1]
    p = dict(ptuple)
    res = {'cmp': 0, 'diff': 0, 'findings': [], 'sample': None}
    c0 = 3 if 'combine_colour' in p else 2
    grow = {k: p[k] + 2 for k in ('H', 'W', 'N') if k in p}
    variants = [(2, c0, {}), (1, c0, {}), (1, c0, grow), (2, c0, {})]
    if 'combine_colour' not in p:
        variants.insert(2, (1, 3, {}))
    if kind.startswith(('dtcwt', 'scat')) and p.get('_light'):
        variants = [(2, c0, {}), (1, c0, {}), (2, c0, {})]      # the dual-tree interpretations are the expensive ones
    p.pop('_light', None)
    shared = Session(repo)
    try:
        f0, _, _, label = entries.build(shared, kind, p, nb=1, c=c0)
    except PyExc:
        return res
    module = getattr(f0, 'self_obj', None)
    if module is None:
        raise AnalysisError('anchor-missing', 'entry kind %s does not call a module instance' % kind)
    from .. import nonlin as _nl
    got, kept = [], []
    for nb, c, upd in variants:
        pv = dict(p, **upd)
        rb0 = len(_nl.REBASE_LOG)
        f, args, ins, label = entries.build(shared, kind, pv, nb=nb, c=c, module=module)
        o = shared.run(f, *args)
        shared.take_events()
        shared.take_findings()
        got.append(fingerprint(entries.flatten(o.value), ins, rb0) if o.kind == 'ok' else
                   (o.kind, getattr(o.exc, 'name', getattr(o.exc, 'rule', ''))))
        kept.append((o.value, ins, rb0) if o.kind == 'ok' else None)
    # results handed out earlier must not change when the instance is called again (no aliasing of module state)
    for i, k in enumerate(kept):
        res['cmp'] += 1
        if k is not None and fingerprint(entries.flatten(k[0]), k[1], k[2]) != got[i]:
            res['diff'] = 1
            res['findings'].append(finding(
                'R-PURE', label, 'earlier-result-changed',
                '%s with %s: the result returned by call %d is changed by later calls on the same instance (the '
                'returned containers / tensors alias state kept on the module)' % (label, p, i + 1)))
            return res
    for i, (nb, c, upd) in enumerate(variants):
        pv = dict(p, **upd)
        fresh = Session(repo)
        rb0 = len(_nl.REBASE_LOG)
        f, args, ins, label = entries.build(fresh, kind, pv, nb=nb, c=c)
        o = fresh.run(f, *args)
        alone = fingerprint(entries.flatten(o.value), ins, rb0) if o.kind == 'ok' else \
            (o.kind, getattr(o.exc, 'name', getattr(o.exc, 'rule', '')))
        res['cmp'] += 1
        if alone != got[i]:
            res['diff'] = 1
            res['findings'].append(finding(
                'R-PURE', label, 'instance-history-dependence',
                '%s with %s: call %d (batch %d, %d channels, size %s) on an instance that already served the calls %s '
                'gives a different result than on a freshly constructed instance'
                % (label, p, i + 1, nb, c, upd or 'unchanged', [(v[0], v[1], v[2] or 'unchanged') for v in variants[:i]])))
            break
    if not res['diff']:
        res['sample'] = {'entry': label, 'params': p, 'same_instance_calls': len(variants),
                         'verdict': 'every call equals the same call on a fresh instance'}
    return res


# ----------------------------------------------------------------------- C16
def w_dtype(S, item):
    return _with_nl(_w_dtype)(S, item)


def _backward_dtype(S, rec, label, p, res):
    """dtype provenance of one backward pass: cotangents carry the dtype of the forward outputs ('in'); every
    gradient handed back must carry it too, and nothing on the way may be cast, stored into a buffer of another
    dtype, or convolved with a weight that does not follow the module"""
    from ..pyinterp import StaticMethod, PyFunc
    from ..domain import Base
    from .dwtlib import flatten_out
    outs = [o for o in flatten_out(rec.out) if isinstance(o, DataT)]
    if not outs or any(getattr(o, 'nl', None) for o in outs):
        return []
    bwd = rec.cls.lookup('backward')
    if isinstance(bwd, StaticMethod):
        bwd = bwd.func
    if not isinstance(bwd, PyFunc):
        return []
    cots = [Base('g%d' % i, o.dims, dtype=o.dtype).tensor(origin='arg') for i, o in enumerate(outs)]
    S.take_events()
    S.interp.nograd += 1
    try:
        o = S.run(bwd, rec.ctx, *cots)
    finally:
        S.interp.nograd = 0
    evs = S.take_events()
    S.take_findings()
    res['cmp'] += 1
    res.setdefault('backward', 0)
    res['backward'] += 1
    out = []
    name = '%s.backward' % rec.cls.name
    if o.kind != 'ok':
        return out            # whether backward runs at all is decided by the adjoint properties
    grads = o.value if isinstance(o.value, tuple) else (o.value,)
    for i, g in enumerate(grads):
        if isinstance(g, DataT) and not (g.ndim == 0 and g.is_zero()) and g.dtype != 'in':
            out.append(finding('R-DTYPE', name, 'gradient-dtype:%s' % g.dtype,
                               '%s with %s: gradient %d returned by %s has dtype provenance %s, not the dtype of the '
                               'cotangent' % (label, p, i, name, g.dtype)))
    for e in evs:
        d = None
        if e['kind'] == 'dtype-cast' and e['src'] != e['dst']:
            d = finding('R-DTYPE', name, 'cast:%s->%s' % (e['src'], e['dst']),
                        'a gradient tensor is cast from %s to %s in the backward pass' % (e['src'], e['dst']))
        elif e['kind'] == 'dtype-cast-on-store':
            d = finding('R-DTYPE', name, 'store-cast:%s->%s' % (e['src'], e['dst']),
                        'a %s gradient is stored into a %s tensor in the backward pass' % (e['src'], e['dst']))
        elif e['kind'] == 'conv-dtypes' and not (e['data'] == 'in' and e['weight'] in ('module', 'in')):
            d = finding('R-DTYPE', name, 'conv-dtypes:%s/%s' % (e['data'], e['weight']),
                        'backward convolves a gradient (%s) with a weight whose dtype is %s' % (e['data'], e['weight']))
        if d is not None:
            loc = e['loc']
            d['file'], d['line'], d['function'], d['statement'] = loc.file, loc.line, loc.func, loc.text
            out.append(d)
    if out:
        res['diff'] = 1
    return out


def _w_dtype(S, item):
    kind, ptuple = item
    p = dict(ptuple)
    res = {'cmp': 0, 'diff': 0, 'findings': [], 'sample': None}
    label = kind
    ref_fp = None
    is_module = kind.split('-')[0] in ('dwt1d', 'dwt2d', 'swt', 'dtcwt', 'scat1', 'scat2') and kind != 'dtcwt-lowlevel'
    for contig in (True, False):
        try:
            f, args, ins, label = entries.build(S, kind, p, nb=1, c=2 if 'combine_colour' not in p else 3, contig=contig)
        except PyExc as e:
            res['cmp'] += 1
            res['diff'] = 1
            res['findings'].append(finding('RAISES', kind, 'constructor-raises-%s' % e.name, str(e)[:160]))
            return res
        S.take_events()
        S.take_findings()
        from .. import nonlin as _nl
        rb0 = len(_nl.REBASE_LOG)
        S.libs.apply_log = []
        # every tensor argument of every autograd Function is taken to require grad, so that each backward
        # computes all of its gradients
        S.libs.needs_override = (lambda cls, a: tuple(isinstance(v, DataT) for v in a)) if contig else None
        try:
            o = S.run(f, *args)
        finally:
            S.libs.needs_override = None
        res['cmp'] += 1
        evs = S.take_events()
        S.take_findings()
        if contig:
            if o.kind == 'violation' and o.exc.rule == 'R-DTYPE':
                res['diff'] = 1
                d = finding('R-DTYPE', label, 'branch-on-dtype-constant', str(o.exc.msg)[:300])
                loc = getattr(o.exc, 'loc', None)
                if loc is not None:
                    d['file'], d['line'], d['function'], d['statement'] = loc.file, loc.line, loc.func, loc.text
                res['findings'].append(d)
            for e in evs:
                if e['kind'] == 'dtype-constant-on-data-path' and any(not n.startswith('tiny[') for n in e['names']):
                    res['diff'] = 1
                    d = finding('R-DTYPE', label, 'value-depends-on-dtype-constant',
                                'a torch.finfo constant (%s) enters the computed values: the float32 and the float64 '
                                'computation are different functions of the input' % ', '.join(e['names']))
                    loc = e['loc']
                    d['file'], d['line'], d['function'], d['statement'] = loc.file, loc.line, loc.func, loc.text
                    res['findings'].append(d)
        if o.kind != 'ok':
            continue
        if contig:
            for rec in list(S.libs.apply_log):
                res['findings'] += _backward_dtype(S, rec, label, p, res)
        outs = entries.flatten(o.value)
        if contig:
            for ti, t in enumerate(outs):
                if t.dtype != 'in':
                    res['diff'] = 1
                    res['findings'].append(finding('R-DTYPE', label, 'output-dtype:%s' % t.dtype,
                                                   '%s with %s: output %d has dtype provenance %s, not the dtype of '
                                                   'the input' % (label, p, ti, t.dtype)))
            for e in evs:
                if e['kind'] == 'conv-dtypes':
                    # the weight is a registered buffer / parameter (follows module.to()) or was cast to the dtype
                    # of the data explicitly
                    ok = e['data'] == 'in' and (e['weight'] in ('module', 'in') if is_module else True)
                    if not ok:
                        res['diff'] = 1
                        d = finding('R-DTYPE', label, 'conv-dtypes:%s/%s' % (e['data'], e['weight']),
                                    'convolution of data (%s) with a weight whose dtype is %s: the filter does not '
                                    'follow module.to() / the data left the input dtype' % (e['data'], e['weight']))
                        loc = e['loc']
                        d['file'], d['line'], d['function'], d['statement'] = loc.file, loc.line, loc.func, loc.text
                        res['findings'].append(d)
                elif e['kind'] == 'dtype-cast' and e['src'] != e['dst']:
                    res['diff'] = 1
                    d = finding('R-DTYPE', label, 'cast:%s->%s' % (e['src'], e['dst']),
                                'a data tensor is cast from %s to %s on the data path' % (e['src'], e['dst']))
                    loc = e['loc']
                    d['file'], d['line'], d['function'], d['statement'] = loc.file, loc.line, loc.func, loc.text
                    res['findings'].append(d)
                elif e['kind'] == 'dtype-cast-on-store':
                    res['diff'] = 1
                    d = finding('R-DTYPE', label, 'store-cast:%s->%s' % (e['src'], e['dst']),
                                'a %s tensor is stored into a %s tensor' % (e['src'], e['dst']))
                    loc = e['loc']
                    d['file'], d['line'], d['function'], d['statement'] = loc.file, loc.line, loc.func, loc.text
                    res['findings'].append(d)
            ref_fp = fingerprint(outs, ins, rb0)
        else:
            for e in evs:
                if e['kind'] == 'view-on-noncontiguous':
                    res['diff'] = 1
                    d = finding('R-STRIDE', label, 'view-on-noncontiguous',
                                '.view() is applied to a tensor whose strides derive from a non-contiguous input '
                                '(shape %s)' % (e.get('shape'),))
                    loc = e['loc']
                    d['file'], d['line'], d['function'], d['statement'] = loc.file, loc.line, loc.func, loc.text
                    res['findings'].append(d)
            if ref_fp is not None and fingerprint(outs, ins, rb0) != ref_fp:
                res['diff'] = 1
                res['findings'].append(finding('R-STRIDE', label, 'value-depends-on-contiguity',
                                               'the result differs for a non-contiguous input'))
    if not res['diff']:
        res['sample'] = {'entry': label, 'params': p,
                         'verdict': 'outputs carry the input dtype; conv weights are module buffers/parameters; no cast; '
                                    'no view on input-strided data'}
    return res
