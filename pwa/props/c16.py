"""C16 - dtype is preserved, strides are irrelevant (float32 accuracy clause: not decided)."""
from ..run import Result
from . import crosslib, entries
from .common import run_items
from .c01 import ASSUME


def check(ctx):
    items = [(k, tuple(sorted(p.items()))) for k, p in entries.catalogue(ctx.quick) + entries.scat_catalogue(ctx.quick)
             if k not in ('functional', 'functional1d', 'functional-atrous', 'functional-prepared')]
    findings, cmp_, diff, samples, counts = run_items(ctx, 'C16', [(crosslib.w_dtype, items)], min_cmp=40)
    cov = {'obligations': cmp_, 'discharged': cmp_ - diff, 'samples': samples or [{'note': 'none'}],
           'entry_points': sorted({i[0] for i in items}),
           'checker_cmd': '/venv/bin/python -m pwa check C16 --tier %s' % ctx.tier,
           'trusted_base': ['pwa/ops.py, pwa/fakelibs.py: dtype rule of each primitive (torch.result_type categories, '
                            'factories, casts)'],
           'undecided': 'the float32 accuracy bound (max error <= small multiple of eps32 x gain x max|x|) is a '
                        'statement about rounding; no static argument here bounds it. Only its necessary condition '
                        '"no narrowing cast / fixed-precision tensor on the data path" is checked.',
           'explanation': 'dtype provenance analysis over every module entry point: tensors carry a symbolic dtype '
                          '(input, module, default, fixed); every factory and cast on the data path must derive its '
                          'dtype from the input, every convolution weight must be a registered buffer/parameter '
                          '(so module.double()/.float() converts it), every returned tensor must have the input '
                          'dtype. The backward pass of every autograd Function reached by the call is analysed the same way '
                          '(cotangents carry the output dtype; every returned gradient, buffer and weight must follow '
                          'it). Stride independence: the same call with inputs flagged non-contiguous must not '
                          'reach a .view() on input-strided data and must give the same operator.'}
    return Result('other', cov, findings, assumptions=ASSUME + [
        'the module has been converted to the dtype of its input (module dtype == input dtype)'])
