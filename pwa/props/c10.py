"""C10 - DWT synthesis equals PyWavelets on arbitrary coefficient pyramids (None level = zeros on the extent)."""
from ..run import Result
from ..parallel import pmap
from ..errors import AnalysisError
from . import dwtlib
from .grids import lens_for, sizes1, sizes2, levels_for
from .c01 import ASSUME


def configs(ctx):
    one, two = [], []
    for mode in dwtlib.MODES5:
        for L in lens_for(ctx):
            J = levels_for(ctx, L)
            for N in sizes1(ctx, L):
                one.append((mode, L, N, J, 1, 2, 0))
            for (H, W) in sizes2(ctx, L):
                two.append((mode, 'name', L, L, H, W, min(2, J), 1, 2, 0))
        # None levels: every mask for J = 2 / 3 on a few sizes
        for L in (2, 4, 8):
            for N in (5, 8, 11, 16, 23):
                for J in (1, 2, 3):
                    if L == 8 and J == 3 and ctx.quick:
                        continue
                    for mask in range(1, 2 ** J):
                        one.append((mode, L, N, J, 1, 2, mask))
            for (H, W) in ((5, 8), (8, 8), (11, 7), (16, 13)):
                for mask in (1, 2, 3):
                    two.append((mode, 'name', L, L, H, W, 2, 1, 2, mask))
        one.append((mode, 4, 11, 2, 2, 3, 0))
        two.append((mode, 'name', 4, 4, 7, 10, 2, 2, 3, 0))
    for L in (2, 4, 8):            # sizes outside the short-signal region (known finding F8)
        for N in ((5, 8, 12, 17) if L < 8 else (17, 24, 33)):
            one.append(('per', L, N, 2 if L < 8 else 1, 1, 2, 0))
        two.append(('per', 'name', L, L, 9, 12, 2 if L < 8 else 1, 1, 2, 0))
    # the other documented forms of `wave`: the pywt.Wavelet object itself and a (rec_lo, rec_hi) pair
    for mode in dwtlib.MODES5:
        for form in ('object', 'tuple2'):
            for (L, N) in ((4, 11), (6, 16)):
                one.append((mode, L, N, 2, 1, 2, 0, form))
            two.append((mode, form, 4, 4, 9, 12, 2, 1, 2, 0))
    return one, two


def check(ctx):
    one, two = configs(ctx)
    r1 = pmap(dwtlib.w_inv1d, ctx.repo, one, ctx.jobs)
    r2 = pmap(dwtlib.w_inv2d, ctx.repo, two, ctx.jobs)
    r2 = r2 + pmap(dwtlib.w_dim_alias, ctx.repo, [('sfb1d', m, L, H, W, d) for m in dwtlib.MODES5 for (L, H, W) in ((4, 9, 12), (6, 5, 7)) for d in (-1, -2)], ctx.jobs)
    findings, samples = [], []
    cmp_ = diff = 0
    for r in r1 + r2:
        cmp_ += r['cmp']
        diff += r['diff']
        for f in r['findings']:
            f['property'] = 'C10'
            f['key'] = 'C10|%s|%s|%s' % (f['rule'], f['construct'], f['discriminator'])
            findings.append(f)
        if r['sample'] and len(samples) < 6:
            samples.append(r['sample'])
    if cmp_ < 100:
        raise AnalysisError('instance-count', 'only %d comparisons were made' % cmp_)
    cov = {'programs': cmp_, 'disagreements_checked': diff, 'samples': samples or [{'note': 'no agreeing sample'}],
           'configs_1d': len(one), 'configs_2d': len(two),
           'none_level_configs': sum(1 for c in one if c[6]) + sum(1 for c in two if c[9]),
           'rule': 'each program = DWT1DInverse/DWTInverse on independent symbolic coefficient tensors of the '
                   'forward pyramid shapes, compared with the frozen PyWavelets waverec/waverec2 index rule; None '
                   'levels are compared on the signal extent'}
    return Result('translation_validation', cov, findings, assumptions=ASSUME)
