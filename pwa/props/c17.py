"""C17 - orthogonal wavelets with periodization give an orthogonal transform."""
import numpy as np

from ..run import Result
from . import dwtlib
from .common import run_items
from .c01 import ASSUME
from ..errors import AnalysisError


def orth_tables(ctx):
    """table facts of PyWavelets' orthogonal families: rec = rev(dec), orthonormality under shifts of 2"""
    import pywt
    names = []
    for fam in ('haar', 'db', 'sym', 'coif'):
        names += pywt.wavelist(fam)
    if ctx.quick:
        names = [n for i, n in enumerate(names) if i % 4 == 0 or n in ('haar', 'db2', 'sym4', 'coif1')]
    bad = []
    lens = set()
    for n in names:
        w = pywt.Wavelet(n)
        h0, h1 = np.array(w.dec_lo), np.array(w.dec_hi)
        g0, g1 = np.array(w.rec_lo), np.array(w.rec_hi)
        L = len(h0)
        lens.add(L)
        tol = 1e-9 if not n.startswith('coif') else 1e-7
        if np.abs(g0 - h0[::-1]).max() > 1e-12 or np.abs(g1 - h1[::-1]).max() > 1e-12:
            bad.append((n, 'rec is not the time reverse of dec'))
            continue
        for k in range(0, L // 2):
            a = float(np.dot(h0[2 * k:], h0[:L - 2 * k]))
            b = float(np.dot(h1[2 * k:], h1[:L - 2 * k]))
            c = float(np.dot(h0[2 * k:], h1[:L - 2 * k]))
            c2 = float(np.dot(h1[2 * k:], h0[:L - 2 * k]))
            want = 1.0 if k == 0 else 0.0
            if abs(a - want) > tol or abs(b - want) > tol or abs(c) > tol or abs(c2) > tol:
                bad.append((n, 'orthonormality under shift %d: %.2e %.2e %.2e' % (2 * k, a - want, b - want, c)))
                break
    return names, bad, sorted(lens)


def configs(ctx):
    items = []
    lens = [2, 4, 6, 8, 10] if ctx.quick else [2, 4, 6, 8, 10, 12, 14, 16, 18, 20, 24, 30, 36]
    for L in lens:
        for J in (1, 2, 3):
            if L > (4 if ctx.quick else 8) and J == 3:
                continue
            if L > (10 if ctx.quick else 20) and J == 2:
                continue
            base = L + (L % 2)
            ms = sorted({-(-base // 2), -(-base // 2) + 1, base, base + 3})
            for m in ms:
                N = m * 2 ** J
                if N // 2 ** (J - 1) < L or N > (200 if ctx.quick else 400):
                    continue
                items.append((1, L, N, J))
            m = -(-base // 2)
            N = m * 2 ** J
            if N // 2 ** (J - 1) >= L and N <= (64 if ctx.quick else 96):
                items.append((2, L, (N, N + 2 ** J), J))
                if L in (4, 8):
                    items.append((2, L, (N, N + 2 ** J), J, 'per'))
                    items.append((1, L, N, J, 'per'))
    return items


def check(ctx):
    names, bad, lens = orth_tables(ctx)
    items = configs(ctx)
    findings, cmp_, diff, samples, counts = run_items(ctx, 'C17', [(dwtlib.w_orth, items)], min_cmp=10)
    for n, why in bad:
        findings.append({'property': 'C17', 'rule': 'TABLE', 'construct': 'pywt.Wavelet(%s)' % n, 'discriminator': 'orthonormal',
                         'key': 'C17|TABLE|pywt.Wavelet(%s)|orthonormal' % n, 'msg': why, 'severity': 'violation',
                         'file': None, 'line': None, 'function': None, 'statement': None, 'call_path': [], 'detail': None})
    if len(names) < 10:
        raise AnalysisError('instance-count', 'only %d orthogonal wavelets inspected' % len(names))
    cov = {'obligations': cmp_ + len(names), 'discharged': cmp_ - diff + len(names) - len(bad),
           'samples': samples or [{'note': 'none'}], 'orthogonal_wavelet_tables_checked': len(names),
           'operator_identities': cmp_,
           'checker_cmd': '/venv/bin/python -m pwa check C17 --tier %s' % ctx.tier,
           'trusted_base': ['pwa/ops.py primitive table', 'PyWavelets filter tables (read as data)'],
           'explanation': 'under the precondition of the property (periodization, every level even and >= filter '
                          'length) the inverse module, with every synthesis tap rec[i] replaced by dec[L-1-i], must '
                          'equal the transpose of the forward module cell by cell (an identity between operators '
                          'with formal taps, all inputs, J levels); PyWavelets\' orthogonal families are checked to '
                          'satisfy rec = rev(dec) and orthonormality under even shifts; together with perfect '
                          'reconstruction (C02) this gives A^T A = I, energy preservation and inverse = transpose. '
                          'That back-propagation equals the transpose is C05 (periodization, even sizes).'}
    return Result('other', cov, findings, assumptions=ASSUME)
