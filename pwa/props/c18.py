"""C18 - shipped DTCWT filter tables: equality with the reference package and the identities the code relies on.

Exhaustive over the finite set of shipped .npz files; the files are read as data (zip + npy header)."""
import os

import numpy as np

from ..run import Result
from .. import npz
from ..errors import AnalysisError, PyExc
from ..parallel import session

DATA = 'pytorch_wavelets/dtcwt/data'
LEVEL1_DOC = ('antonini', 'farras', 'legall', 'near_sym_a', 'near_sym_b', 'near_sym_b_bp')
QSHIFT_DOC = ('qshift_06', 'qshift_a', 'qshift_b', 'qshift_c', 'qshift_d', 'qshift_b_bp')
TOL = 1e-12


def ref_dir():
    for p in ('/venv/lib/python3.12/site-packages/dtcwt/data',):
        if os.path.isdir(p):
            return p
    try:
        import importlib.util
        sp = importlib.util.find_spec('dtcwt')
        p = os.path.join(os.path.dirname(sp.origin), 'data')
        if os.path.isdir(p):
            return p
    except Exception:
        pass
    return None


def mk(construct, disc, msg, file=None):
    return {'property': 'C18', 'rule': 'TABLE', 'construct': construct, 'discriminator': disc,
            'key': 'C18|TABLE|%s|%s' % (construct, disc), 'msg': msg, 'severity': 'violation',
            'file': file, 'line': None, 'function': None, 'statement': None, 'call_path': [], 'detail': None}


def vec(a):
    return np.asarray(a, dtype=np.float64).ravel()


def padc(x, n):
    e = (n - len(x)) // 2
    return np.pad(x, (e, n - len(x) - e))


def check_level1(name, t, out, obl):
    keys = ['h0o', 'g0o', 'h1o', 'g1o'] + (['h2o', 'g2o'] if name.endswith('_bp') else [])
    for k in keys:
        obl[0] += 1
        if k not in t:
            out.append(mk(name + '.npz', 'missing-key-' + k, 'level-1 table lacks key %s' % k))
            return
    for k in keys:
        x = vec(t[k])
        obl[0] += 1
        if len(x) % 2 != 1 or np.abs(x - x[::-1]).max() > TOL:
            out.append(mk(name + '.npz', 'symmetric-' + k, '%s is not an odd-length symmetric filter (length %d, '
                          'asymmetry %.3g)' % (k, len(x), np.abs(x - x[::-1]).max() if len(x) else 0)))
    p = np.convolve(vec(t['h0o']), vec(t['g0o']))
    q = np.convolve(vec(t['h1o']), vec(t['g1o']))
    obl[0] += 1
    if (len(p) - len(q)) % 2:
        out.append(mk(name + '.npz', 'pr', 'h0o*g0o and h1o*g1o cannot be centred on one another'))
        return
    n = max(len(p), len(q))
    s = padc(p, n) + padc(q, n)
    d = np.zeros(n)
    d[n // 2] = 1.0
    if np.abs(s - d).max() > 1e-9:
        out.append(mk(name + '.npz', 'pr', 'h0o*g0o + h1o*g1o differs from a centred unit impulse by %.3g'
                      % np.abs(s - d).max()))


def check_qshift(name, t, out, obl):
    trees = ['0', '1'] + (['2'] if name.endswith('_bp') else [])
    for tr in trees:
        for k in ('h%sa', 'h%sb', 'g%sa', 'g%sb'):
            obl[0] += 1
            if k % tr not in t:
                out.append(mk(name + '.npz', 'missing-key-' + k % tr, 'q-shift table lacks key %s' % (k % tr)))
                return
    for tr in trees:
        ha, hb, ga, gb = [vec(t[k % tr]) for k in ('h%sa', 'h%sb', 'g%sa', 'g%sb')]
        obl[0] += 4
        if len(ha) % 2:
            out.append(mk(name + '.npz', 'even-length-' + tr, 'h%sa has odd length %d' % (tr, len(ha))))
        if len(hb) != len(ha) or np.abs(hb - ha[::-1]).max() > TOL:
            out.append(mk(name + '.npz', 'tree-b-reverse-' + tr, 'h%sb is not the time reverse of h%sa' % (tr, tr)))
        if len(ga) != len(ha) or np.abs(ga - ha[::-1]).max() > TOL:
            out.append(mk(name + '.npz', 'synthesis-reverse-a-' + tr, 'g%sa is not the time reverse of h%sa' % (tr, tr)))
        if len(gb) != len(hb) or np.abs(gb - hb[::-1]).max() > TOL:
            out.append(mk(name + '.npz', 'synthesis-reverse-b-' + tr, 'g%sb is not the time reverse of h%sb' % (tr, tr)))
        # which tree lands on even output positions is decided by the sign of sum(ha*hb) in the reference
        # and by the `highpass` flag here: lowpass positive, highpass / band-pass negative
        obl[0] += 1
        if len(hb) == len(ha):
            sgn = float(ha @ hb)
            want_pos = (tr == '0')
            if (sgn > 0) != want_pos:
                out.append(mk(name + '.npz', 'interleave-sign-' + tr, 'sum(h%sa*h%sb) = %.3g has the wrong sign for '
                              'the interleave order the code hard-wires' % (tr, tr, sgn)))
    h0, h1 = vec(t['h0a']), vec(t['h1a'])
    L = len(h0)
    obl[0] += 1
    if len(h1) != L:
        out.append(mk(name + '.npz', 'orthonormal', 'h0a and h1a have different lengths'))
        return
    worst = 0.0
    for k in range(L // 2):
        a = float(h0[2 * k:] @ h0[:L - 2 * k]) - (1.0 if k == 0 else 0.0)
        b = float(h1[2 * k:] @ h1[:L - 2 * k]) - (1.0 if k == 0 else 0.0)
        c = float(h0[2 * k:] @ h1[:L - 2 * k])
        c2 = float(h1[2 * k:] @ h0[:L - 2 * k])
        worst = max(worst, abs(a), abs(b), abs(c), abs(c2))
    if worst > 1e-6:
        out.append(mk(name + '.npz', 'orthonormal', '(h0a, h1a) is not orthonormal under even shifts (defect %.3g)' % worst))


def loader_calls(ctx):
    """interpret every loader for every shipped name: requested keys exist, cache hands out the same arrays"""
    S = session(ctx.repo)
    C = 'pytorch_wavelets.dtcwt.coeffs'
    biort, level1, qshift = S.get(C, 'biort'), S.get(C, 'level1'), S.get(C, 'qshift')
    out = []
    n = 0
    names = sorted(f[:-4] for f in os.listdir(os.path.join(ctx.repo, DATA)) if f.endswith('.npz'))
    results = {}
    for rnd in range(2):
        for nm in (names if rnd == 0 else names[::-1]):
            tbl = npz.read_npz(os.path.join(ctx.repo, DATA, nm + '.npz'))
            fns = []
            if 'h0o' in tbl:
                fns.append(('biort', biort, (nm,)))
                fns.append(('level1-compact', level1, (nm, True)))
            if 'h0a' in tbl:
                fns.append(('qshift', qshift, (nm,)))
                fns.append(('level1', level1, (nm,)))
            for label, fn, args in fns:
                n += 1
                o = S.run(fn, *args)
                if o.kind != 'ok':
                    if rnd == 0:
                        out.append(mk('coeffs.%s(%r)' % (label, nm), 'raises', 'loader raises %s' % (o.exc,)))
                    continue
                roles = []
                for a in o.value:
                    tk = getattr(a, 'table_key', None)
                    roles.append(tk)
                    if tk is None or tk[0] != nm:
                        out.append(mk('coeffs.%s(%r)' % (label, nm), 'wrong-table',
                                      'loader returns an array that is not a key of %s.npz: %r' % (nm, tk)))
                # positional contract of the loaders (documented, and identical in the reference dtcwt.coeffs)
                if label in ('biort', 'level1-compact'):
                    want = ['h0o', 'g0o', 'h1o', 'g1o'] + (['h2o', 'g2o'] if nm == 'near_sym_b_bp' else [])
                else:
                    want = ['h0a', 'h0b', 'g0a', 'g0b', 'h1a', 'h1b', 'g1a', 'g1b'] + \
                        (['h2a', 'h2b', 'g2a', 'g2b'] if (nm == 'qshift_b_bp' and label == 'qshift') else [])
                got = [r[1] if r else None for r in roles]
                if got != want:
                    out.append(mk('coeffs.%s(%r)' % (label, nm), 'tuple-order',
                                  'loader returns the keys %s, documented order is %s' % (got, want)))
                prev = results.get((label, nm))
                if prev is not None and prev != roles:
                    out.append(mk('coeffs.%s(%r)' % (label, nm), 'not-repeatable',
                                  'a second load (after other tables were loaded) returns different arrays'))
                results[(label, nm)] = roles
    for f in S.take_findings():
        d = f.as_dict()
        d['property'] = 'C18'
        d['key'] = 'C18|%s|%s|%s' % (d['rule'], d['construct'], d['discriminator'])
        out.append(d)
    S.take_events()
    return out, n, results


def check(ctx):
    ddir = os.path.join(ctx.repo, DATA)
    if not os.path.isdir(ddir):
        raise AnalysisError('anchor-missing', DATA)
    rdir = ref_dir()
    if rdir is None:
        raise AnalysisError('anchor-missing', 'reference dtcwt data directory')
    names = sorted(f[:-4] for f in os.listdir(ddir) if f.endswith('.npz'))
    if len(names) < 12:
        raise AnalysisError('instance-count', 'only %d tables found' % len(names))
    for n in LEVEL1_DOC + QSHIFT_DOC:
        if n not in names:
            raise AnalysisError('anchor-missing', 'documented table %s.npz is not shipped' % n)
    out = []
    obl = [0]
    samples = []
    for name in names:
        path = os.path.join(ddir, name + '.npz')
        t = npz.read_npz(path)
        fl = {k: v for k, v in t.items() if v.dtype.kind == 'f' and not k.startswith('__')}
        rpath = os.path.join(rdir, name + '.npz')
        obl[0] += 1
        if not os.path.isfile(rpath):
            out.append(mk(name + '.npz', 'no-reference', 'no table of this name in the reference dtcwt package',
                          file=os.path.join(DATA, name + '.npz')))
        else:
            r = npz.read_npz(rpath)
            rf = {k: v for k, v in r.items() if v.dtype.kind == 'f' and not k.startswith('__')}
            if sorted(fl) != sorted(rf):
                out.append(mk(name + '.npz', 'reference-keys', 'keys %s differ from the reference %s' % (sorted(fl), sorted(rf))))
            for k in sorted(set(fl) & set(rf)):
                obl[0] += 1
                if fl[k].shape != rf[k].shape or not np.array_equal(fl[k], rf[k]):
                    out.append(mk(name + '.npz', 'reference-value-' + k, '%s differs from the reference table '
                                  '(max abs diff %s)' % (k, np.abs(vec(fl[k]) - vec(rf[k])).max()
                                                         if fl[k].size == rf[k].size else 'shape')))
        if 'h0o' in fl:
            check_level1(name, fl, out, obl)
        elif 'h0a' in fl:
            check_qshift(name, fl, out, obl)
        else:
            out.append(mk(name + '.npz', 'unknown-kind', 'table has neither level-1 nor q-shift keys'))
        if len(samples) < 4:
            samples.append({'table': name, 'keys': {k: list(v.shape) for k, v in fl.items()},
                            'sha256': npz.digest(path)[:16]})
    lf, n_loader, results = loader_calls(ctx)
    out += lf
    viol = [f for f in out if f.get('severity', 'violation') == 'violation']
    cov = {'evaluations': obl[0] + n_loader, 'distinct_nontrivial': len(names),
           'rule': 'exhaustive over the shipped .npz files: one evaluation = one identity of one table (reference '
                   'equality per key, symmetry, biorthogonal PR product, time-reversal relations, orthonormality, '
                   'interleave sign) or one interpreted loader call; a table is non-trivial if it holds at least '
                   'four float filters', 'samples': samples, 'exhaustive': True,
           'tables': names, 'loader_calls': n_loader, 'identities_failing': len(viol)}
    return Result('exploration', cov, out,
                  assumptions=['the reference package is the installed dtcwt 0.14.0',
                               '.npz members are plain float arrays (no pickle)'])
