"""C08 - scattering layers compute the defined DTCWT scattering coefficients."""
from ..run import Result
from . import scatlib
from .common import run_items
from .c03 import ASSUME


def configs(ctx):
    items = []
    biorts = ['near_sym_a', 'near_sym_b', 'near_sym_b_bp'] if not ctx.quick else ['near_sym_a', 'near_sym_b_bp']
    if not ctx.quick:
        biorts += ['antonini', 'legall']
    for b in biorts:
        for colour in (False, True):
            C = 3 if colour else 2
            for (H, W) in ((8, 8), (6, 10), (7, 9), (2, 4), (12, 5)) + (((16, 12), (3, 3), (20, 20), (9, 14), (4, 4), (1, 6), (5, 5), (24, 10)) if not ctx.quick else ()):
                items.append((1, b, H, W, C, colour, 1))
            for (H, W) in ((8, 16), (16, 8), (11, 13), (6, 20), (3, 9), (2, 8), (8, 2)) + (((24, 24), (9, 17), (16, 16), (12, 28), (32, 8), (5, 5), (13, 21)) if not ctx.quick else ()):
                if ctx.quick and b != 'near_sym_a' and (H, W) not in ((8, 16), (11, 13)):
                    continue
                items.append((2, b, H, W, C, colour, 1))
        items.append((1, b, 8, 8, 1, False, 2))
    return items


def check(ctx):
    items = configs(ctx)
    findings, cmp_, diff, samples, counts = run_items(ctx, 'C08', [(scatlib.w_scat_fwd, items)], min_cmp=30)
    cov = {'obligations': cmp_, 'discharged': cmp_ - diff, 'samples': samples or [{'note': 'none'}],
           'checker_cmd': '/venv/bin/python -m pwa check C08 --tier %s' % ctx.tier,
           'trusted_base': ['pwa/ops.py primitive table', 'pwa/nonlin.py normal form of pointwise expressions',
                            'DTCWT reference rules (pwa/spec.py), band ordering of the second-order layer as fixed by '
                            'the repository tests against the NumPy reference'],
           'explanation': 'ScatLayer / ScatLayerj2 are interpreted with a symbolic magnitude bias b; every output channel '
                          'is a normal-form expression over linear fields. It must equal, as an expression and for all '
                          'inputs and b, the defined coefficient: 2x2-pooled reference lowpass, sqrt(re^2+im^2+b^2)-b of '
                          'the reference level-1 / level-2 subbands (summed over the three colours when combining), the '
                          'second-order magnitudes of the first-order ones, stacked band-major, with the documented '
                          'shape for every size (odd / non-multiple-of-8 sizes extended by border copies). Every '
                          'magnitude channel is proved non-negative from the form sqrt(b^2 + squares) - b, and no '
                          'partial primitive occurs.'}
    return Result('other', cov, findings, assumptions=ASSUME)
