"""C11 - DTCWT synthesis equals the reference inverse on arbitrary pyramids; None / empty = zeros."""
from ..run import Result
from . import dtlib
from .common import run_items
from .grids import stable_hash
from .c03 import ASSUME, sizes, user_items


def configs(ctx):
    items = []
    pairs = [(b, q) for b in dtlib.BIORT for q in dtlib.QSHIFT]
    szs = sizes(ctx)
    for (b, q) in pairs:
        for i, (H, W) in enumerate(szs):
            if ctx.quick and (stable_hash(b, q, 'i') + i) % 5 and (b, q) != ('near_sym_a', 'qshift_a'):
                continue
            if not ctx.quick and (stable_hash(b, q, 'ti') + i) % 3 and (b, q) != ('near_sym_a', 'qshift_a'):
                continue
            long_f = q in ('qshift_c', 'qshift_d') or b == 'near_sym_b'
            J = 2 if (long_f or ctx.quick) else 3
            items.append((b, q, H, W, J, 1, 2, 2, -1, 0, 'none', False))
    items += user_items(ctx, inverse=True)
    # absent levels: every mask for J <= 3, None and 0-dim, lowpass absent
    for (H, W) in ((8, 8), (16, 16), (10, 12), (6, 14), (7, 9), (20, 12)):
        for J in (1, 2, 3):
            for mask in range(0, 2 ** J):
                for kind in ('none', 'empty'):
                    for low_absent in (False, True):
                        if not mask and not low_absent:
                            continue
                        if low_absent and mask == 2 ** J - 1:
                            continue          # nothing present at all: no shape information
                        if ctx.quick and J == 3 and (H, W) not in ((16, 16), (10, 12)):
                            continue
                        items.append(('near_sym_a', 'qshift_a', H, W, J, 1, 2, 2, -1, mask, kind, low_absent))
    # the zero-padding mode (level 1 only honours it): absent entries vs explicit zeros given to the same module
    for (H, W) in ((8, 8), (16, 16), (12, 20)):
        for J in (1, 2):
            for mask in range(0, 2 ** J):
                for kind in ('none', 'empty'):
                    for low_absent in (False, True):
                        if (not mask and not low_absent) or (low_absent and mask == 2 ** J - 1):
                            continue
                        items.append(('near_sym_a', 'qshift_a', H, W, J, 1, 2, 2, -1, mask, kind, low_absent, 'zero'))
    return items


def check(ctx):
    items = configs(ctx)
    findings, cmp_, diff, samples, counts = run_items(ctx, 'C11', [(dtlib.w_dt_inv, items)], min_cmp=40)
    cov = {'programs': cmp_, 'disagreements_checked': diff, 'samples': samples or [{'note': 'none'}],
           'absent_level_configs': sum(1 for i in items if i[9] or i[11]),
           'rule': 'each program = DTCWTInverse on independent symbolic lowpass / subband tensors of the forward '
                   'pyramid shapes (so arbitrary pyramids), compared as an operator with the reference inverse '
                   'assembly (c2q, colifilt with (b,a) order, crop rule, colfilter); absent levels (None or 0-dim, '
                   'lowpass included) must equal zeros of the right shape'}
    return Result('translation_validation', cov, findings, assumptions=ASSUME)
