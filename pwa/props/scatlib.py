"""Scattering layers: C08 (forward = defined coefficients) and C09 (backward = true gradient, finite)."""
from fractions import Fraction
import itertools

import numpy as np

from ..harness import base_tensor, base_tensor_dims, cells_equal
from ..domain import (AxisTable, Term, Form, DataT, Q2, ONE, ZERO_FORM, canon_cell, canon_cell_scaled, Base, HOOKS,
                      Poly)
from ..errors import AnalysisError, PyExc
from .. import spec, nonlin
from ..nonlin import Sum, Atom, s_lin, s_add, s_mul, s_pow, s_const, s_param, s_scale, s_atom, EMPTY
from .dwtlib import finding, anchor, exc_finding, transpose_table
from .dtlib import (Img, ref_forward, table_len, brole, table_symmetries)

SC = 'pytorch_wavelets.scatternet.layers'
SL = 'pytorch_wavelets.scatternet.lowlevel'
B = 'b'


# --------------------------------------------------------------- spec pieces
def pool_ref(img):
    half = Q2(Fraction(1, 2))
    w = (Poly.const(half), Poly.const(half))
    return img.map_axis(0, lambda t: t.conv(w, 2, 1, (0, 0))).map_axis(1, lambda t: t.conv(w, 2, 1, (0, 0)))


def mag_field(pairs):
    """sqrt(sum re^2 + im^2 + b^2) - b for a list of (re cell terms, im cell terms)"""
    s = s_pow(s_param(B), 2)
    for re, im in pairs:
        s = s_add(s, s_pow(s_lin(re), 2))
        s = s_add(s, s_pow(s_lin(im), 2))
    return s_add(s_pow(s, Fraction(1, 2)), s_param(B), -1)


def block_extend(t, mult):
    """ScatLayerj2's size extension: copies of the first / last rows as blocks"""
    n = len(t)
    rem = n % mult
    if rem == 0:
        return t
    after = (mult + 1 - rem) // 2
    before = (mult - rem) // 2
    f = t.forms
    if before > n or after > n:
        return None
    return AxisTable(t.base_axis, list(f[:before]) + list(f) + list(f[n - after:]))


def expected_scat1(S, bx, nb, C, H, W, biort, colour):
    bp = biort == 'near_sym_b_bp'
    lolo, levels, _ = ref_forward(S, bx, H, W, biort, 'qshift_a', 1, bp=bp)
    lev = levels[0]
    pooled = pool_ref(lolo)
    out = {}
    for n in range(nb):
        if colour:
            for c in range(C):
                out[(n, c)] = s_lin(pooled.cell(n, c))
            for k in range(6):
                out[(n, C + k)] = mag_field([(lev[k][0].cell(n, c), lev[k][1].cell(n, c)) for c in range(C)])
        else:
            for c in range(C):
                out[(n, c)] = s_lin(pooled.cell(n, c))
                for k in range(6):
                    out[(n, (k + 1) * C + c)] = mag_field([(lev[k][0].cell(n, c), lev[k][1].cell(n, c))])
    he, we = H + H % 2, W + W % 2
    return out, (he // 2, we // 2), (C + 6 if colour else 7 * C)


def compare_sum_cells(Z, exp, label):
    problems = []
    for idx, e in exp.items():
        a = Z.cells[idx]
        if isinstance(a, tuple):
            a = s_lin(a)
        if a != e:
            problems.append(('values', '%s channel %s: expression differs from the defined coefficient' % (label, idx,)))
            if len(problems) >= 2:
                break
    return problems


def nonneg(s):
    """provable s >= 0 for every input, given b >= 0"""
    if all(_mono_nonneg(m, c) for m, c in s.d.items()):
        return True
    # sqrt(p^2 + nonneg) - p
    if len(s.d) == 2:
        items = list(s.d.items())
        for (m1, c1), (m2, c2) in (items, items[::-1]):
            if c1 == ONE and c2 == Q2(-1) and len(m1) == 1 and len(m2) == 1:
                (a1, e1), = tuple(m1)
                (a2, e2), = tuple(m2)
                if a1.kind == 'sum' and e1 == Fraction(1, 2) and a2.kind == 'param' and e2 == 1:
                    inner = a1.payload
                    sq = frozenset([(a2, Fraction(2))])
                    if inner.d.get(sq) == ONE:
                        rest = Sum({m: c for m, c in inner.d.items() if m != sq})
                        if all(_mono_nonneg(m, c) for m, c in rest.d.items()):
                            return True
    return False


def _mono_nonneg(m, c):
    if float(c) < 0:
        return False
    for a, e in m:
        if a.kind == 'param':
            continue                      # b >= 0
        if a.kind == 'lin':
            if e.denominator != 1 or int(e) % 2:
                return False
        elif a.kind == 'sum':
            if isinstance(a.payload, Sum):
                if e.denominator == 2 and nonneg(a.payload):
                    continue
                if e.denominator == 1 and int(e) % 2 == 0:
                    continue
                if nonneg(a.payload):
                    continue
                return False
            return False
    return True


def positive(s, bias_positive=True):
    """provable s > 0 given b > 0: all monomials non-negative and a pure power of b among them"""
    if not all(_mono_nonneg(m, c) for m, c in s.d.items()):
        return False
    for m, c in s.d.items():
        if float(c) > 0 and m and all(a.kind == 'param' for a, e in m) and bias_positive:
            return True
        if float(c) > 0 and not m:
            return True
    return False


def division_hazards(s, where, out, seen=None):
    """every factor with a negative exponent must be provably positive; every sqrt argument provably >= 0"""
    seen = seen if seen is not None else set()
    for m, c in s.d.items():
        for a, e in m:
            if a in seen:
                continue
            seen.add(a)
            if a.kind == 'sum' and isinstance(a.payload, Sum):
                division_hazards(a.payload, where, out, seen)
                if e < 0 or e.denominator == 2:
                    base = a.payload
                    if e < 0:
                        # x^(-1/2) of a sum: needs the sum > 0
                        ok = positive(base)
                        if not ok:
                            out.append('%s: division by %r, which is not bounded away from zero (b > 0 does not help)'
                                       % (where, a))
                    elif not nonneg(base):
                        out.append('%s: square root of %r, which is not provably non-negative' % (where, a))
            elif a.kind == 'sum':
                out.append('%s: primitive outside the expression vocabulary: %r' % (where, a.key[1] if isinstance(a.key, tuple) else a))
            elif e < 0:
                if a.kind == 'param':
                    continue
                out.append('%s: division by a linear field %r (vanishes at the zero image)' % (where, a))


# ----------------------------------------------------------------- C08 worker
def w_scat_fwd(S, item):
    order, biort, H, W, C, colour, nb = item
    res = {'cmp': 1, 'diff': 0, 'findings': [], 'sample': None}
    HOOKS['allow_nl'] = True
    try:
        return _scat_fwd(S, item, res)
    finally:
        HOOKS['allow_nl'] = False
        del nonlin.REBASE_LOG[:]
        nonlin.REBASED.clear()


def _scat_fwd(S, item, res):
    order, biort, H, W, C, colour, nb = item
    cls = 'ScatLayer' if order == 1 else 'ScatLayerj2'
    construct = '%s.forward' % cls
    disc0 = '%s%s' % ('colour' if colour else 'grey', ',bp' if biort.endswith('_bp') else '')
    kw = dict(biort=biort, magbias=nonlin.Param(B), combine_colour=colour)
    qshift = 'qshift_b_bp' if biort.endswith('_bp') else 'qshift_a'
    if order == 2:
        kw['qshift'] = qshift
    m = S.construct(SC, cls, **kw)
    bx, x = base_tensor('x', nb, C, [H, W])
    del nonlin.REBASE_LOG[:]
    o = S.run(S.method(m, 'forward'), x)
    mult = 2 if order == 1 else 8
    size_class = 'multiple-of-%d' % mult if (H % mult == 0 and W % mult == 0) else 'other-size'
    if order == 2 and min(H, W) < 3:
        size_class = 'axis-size-2'
        disc0 = 'any'
    if o.kind != 'ok':
        res['diff'] = 1
        res['findings'].append(exc_finding(S, o, construct, '%s:%s' % (disc0, size_class)))
        return res
    Z = o.value
    problems = []
    if order == 1:
        exp, (h, w), nch = expected_scat1(S, bx, nb, C, H, W, biort, colour)
        if not isinstance(Z, DataT) or list(Z.shape) != [nb, nch, h, w]:
            problems.append(('shape', 'output has shape %s, documented %s' % (list(getattr(Z, 'shape', [])), [nb, nch, h, w])))
        else:
            problems += compare_sum_cells(Z, exp, 'first-order')
    else:
        problems += _check_scat2(S, Z, bx, nb, C, H, W, biort, qshift, colour)
    # non-negativity of every magnitude channel, and no partial primitive
    if not problems and isinstance(Z, DataT):
        n_low = C if (colour or True) else C
        for idx in np.ndindex(*Z.cells.shape):
            cell = Z.cells[idx]
            if isinstance(cell, tuple):
                continue
            haz = []
            division_hazards(cell, 'channel %s' % (idx,), haz)
            if haz:
                problems.append(('partial-op', haz[0]))
                break
            one = cell.single()
            is_lin = one is not None and len(one[0]) == 1 and next(iter(one[0]))[0].kind == 'lin'
            if not is_lin and not nonneg(cell):
                problems.append(('sign', 'magnitude channel %s is not provably non-negative: %r' % (idx, cell)))
                break
    if problems:
        res['diff'] = 1
        what, msg = problems[0]
        res['findings'].append(finding('SCAT', construct, '%s:%s:%s' % (disc0, size_class, what),
                                       'biort=%s HxW=%dx%d C=%d colour=%s: %s' % (biort, H, W, C, colour, msg),
                                       anchor=anchor(S, SC, cls, 'forward'), detail={'config': list(item)}))
    else:
        res['sample'] = {'config': dict(order=order, biort=biort, H=H, W=W, C=C, colour=colour),
                         'output_shape': list(Z.shape), 'example_channel': repr(Z.cells[(0, Z.cells.shape[1] - 1)])[:160]}
    for fi in S.take_findings():
        res['findings'].append(fi.as_dict())
    return res


def _check_scat2(S, Z, bx, nb, C, H, W, biort, qshift, colour):
    bp = biort.endswith('_bp')
    th = block_extend(AxisTable.identity((bx.id, 0), H), 8)
    tw = block_extend(AxisTable.identity((bx.id, 1), W), 8)
    if th is None or tw is None:
        return [('shape', 'size extension asks for more border rows than the image has')]
    He, We = len(th), len(tw)
    img0 = Img([(bx, (), ONE, th, tw)])
    s0, levels, scales = ref_forward(S, bx, He, We, biort, qshift, 2, bp=bp, img=img0)
    lev1, lev2 = levels
    h2, w2 = He // 2, We // 2
    h4, w4 = He // 4, We // 4
    nch = (C + 6 + 6 + 36) if colour else 49 * C
    if not isinstance(Z, DataT) or list(Z.shape) != [nb, nch, h4, w4]:
        return [('shape', 'output has shape %s, documented %s' % (list(getattr(Z, 'shape', [])), [nb, nch, h4, w4]))]
    # the second order transform is applied to the first-order magnitudes: find the re-based tensor
    rb = [b for b in nonlin.REBASE_LOG]
    n1 = 6 if colour else 6 * C
    cand = [b for b in rb if [s for _, s in b.dims] == [nb, n1, h2, w2]]
    if len(cand) != 1:
        return [('structure', 'expected exactly one first-order magnitude tensor of shape %s fed to the second '
                 'transform, found %d' % ([nb, n1, h2, w2], len(cand)))]
    B1 = cand[0]
    D1 = B1.defn
    problems = []
    for n in range(nb):
        for k in range(6):
            if colour:
                e = mag_field([(lev1[k][0].cell(n, c), lev1[k][1].cell(n, c)) for c in range(C)])
                if D1.cells[n, k] != e:
                    problems.append(('values', 'first-order magnitude (orientation %d) fed to the second transform differs' % k))
            else:
                for c in range(C):
                    e = mag_field([(lev1[k][0].cell(n, c), lev1[k][1].cell(n, c))])
                    if D1.cells[n, k * C + c] != e:
                        problems.append(('values', 'first-order magnitude (orientation %d, channel %d) fed to the second '
                                         'transform differs' % (k, c)))
            if problems:
                return problems
    # second-order transform over B1
    lo2, levs, _ = ref_forward(S, B1, h2, w2, biort, qshift, 1, bp=bp)
    levB = levs[0]
    pooled_s0 = pool_ref(s0)
    pooled_s1 = pool_ref(lo2)
    exp = {}
    for n in range(nb):
        if colour:
            for c in range(C):
                exp[(n, c)] = s_lin(pooled_s0.cell(n, c))
            for k in range(6):
                exp[(n, C + k)] = s_lin(pooled_s1.cell(n, k))
                exp[(n, C + 6 + k)] = mag_field([(lev2[k][0].cell(n, c), lev2[k][1].cell(n, c)) for c in range(C)])
            for k2 in range(6):
                for k in range(6):
                    exp[(n, C + 12 + 6 * k2 + k)] = mag_field([(levB[k2][0].cell(n, k), levB[k2][1].cell(n, k))])
        else:
            for c in range(C):
                exp[(n, c)] = s_lin(pooled_s0.cell(n, c))
                for k in range(6):
                    exp[(n, (1 + k) * C + c)] = s_lin(pooled_s1.cell(n, k * C + c))
                    exp[(n, (7 + k) * C + c)] = mag_field([(lev2[k][0].cell(n, c), lev2[k][1].cell(n, c))])
                for k2 in range(6):
                    for k in range(6):
                        exp[(n, (13 + 6 * k2 + k) * C + c)] = mag_field(
                            [(levB[k2][0].cell(n, k * C + c), levB[k2][1].cell(n, k * C + c))])
    return compare_sum_cells(Z, exp, 'second-order')


# ======================================================================= C09
class _Dummy:
    id = -1
    name = 'op'


DUMMY = _Dummy()
ONE_PHI = s_const(1)


def base_side(b, memo):
    """'x' (depends on the input only), 'g' (depends on the cotangent), 'xg'"""
    if b.id in memo:
        return memo[b.id]
    if getattr(b, 'side', None):
        memo[b.id] = b.side
        return b.side
    memo[b.id] = ''           # cycle guard
    s = set()
    D = nonlin.REBASED.get(b.id)
    if D is not None:
        for idx in np.ndindex(*D.cells.shape):
            c = D.cells[idx]
            if isinstance(c, tuple):
                for t in c:
                    s.update(base_side(t.base, memo))
            else:
                for a in c.atoms():
                    if a.kind == 'lin':
                        for t in a.payload:
                            s.update(base_side(t.base, memo))
    r = ''.join(sorted(s))
    memo[b.id] = r
    return r


def atom_side(a, memo):
    s = set()
    if a.kind == 'lin':
        for t in a.payload:
            s.update(base_side(t.base, memo))
    elif a.kind == 'sum' and isinstance(a.payload, Sum):
        for x in a.payload.atoms():
            s.update(atom_side(x, memo))
    return ''.join(sorted(s))


def diff(s, atom):
    """d s / d atom, the atom treated as an independent variable"""
    out = Sum({})
    for m, c in s.d.items():
        items = list(m)
        for i, (a, e) in enumerate(items):
            if a == atom:
                da = s_const(1)
            elif a.kind == 'sum' and isinstance(a.payload, Sum):
                da = diff(a.payload, atom)
                if da.is_zero():
                    continue
            else:
                continue
            rest = Sum({frozenset(items[:i] + items[i + 1:]): c})
            term = s_mul(s_mul(rest, s_scale(s_atom(a, e - 1) if e != 1 else s_const(1), Q2(e))), da)
            out = s_add(out, term)
    return out


def lin_atoms(s):
    return [a for a in s.atoms() if a.kind == 'lin']


def op_terms(tables, coef):
    return [Term(DUMMY, (), tables, coef)]


def transpose_tables(t, in_sizes):
    """tables of term t (base grid -> output grid) transposed: output grid -> base grid, ordered by base axes"""
    tabs = [None] * len(in_sizes)
    for s_out, tb in enumerate(t.tables):
        a = tb.base_axis[1]
        tabs[a] = transpose_table(tb, in_sizes[a], (-1, s_out))
    return tabs


def norm_tables(tables):
    return [AxisTable((-1, i), tb.forms) for i, tb in enumerate(tables)]


def _is_identity(t):
    if t.coef != ONE:
        return False
    for tb in t.tables:
        for k, f in enumerate(tb.forms):
            if f.d != {((), k): ONE}:
                return False
    return True


def impl_paths(dX, memo, problems):
    """paths of the hand-written backward: target x slice -> [(operator, pointwise factor), ...] -> cotangent cell"""
    paths = []

    def expand(terms, stages, target):
        for t in terms:
            side = base_side(t.base, memo)
            if t.base.role != 'rebased':
                if side != 'g':
                    problems.append('the gradient depends linearly on the input %s itself' % t.base.name)
                    continue
                if stages and _is_identity(t):
                    # the cotangent slice itself (no linear stage between dZ and the first pointwise factor)
                    paths.append((target, t.bchan, list(stages)))
                else:
                    paths.append((target, t.bchan, stages + [(op_terms(norm_tables(t.tables), t.coef), ONE_PHI)]))
                continue
            D = nonlin.REBASED[t.base.id].cells[t.bchan]
            if isinstance(D, tuple):
                D = s_lin(D)
            for mono, c in D.d.items():
                g_atoms = [(a, e) for a, e in mono if 'g' in atom_side(a, memo)]
                if len(g_atoms) != 1 or g_atoms[0][1] != 1 or g_atoms[0][0].kind != 'lin':
                    problems.append('a backward intermediate is not linear in the cotangent: %r' % (Sum({mono: c}),))
                    continue
                others = frozenset((a, e) for a, e in mono if (a, e) != g_atoms[0])
                phi = Sum({others: ONE})          # the scalar coefficient goes into the linear operator
                expand(g_atoms[0][0].payload, stages + [(op_terms(norm_tables(t.tables), t.coef * c), phi)], target)

    for idx in np.ndindex(*dX.cells.shape):
        expand(dX.cells[idx], [], tuple(idx))
    return paths


def true_paths(Z, bx, memo):
    """reverse-mode differentiation of the forward expression DAG"""
    paths = []
    x_sizes = [s for k, s in bx.dims if k == 'S']

    def back(cell, upstream, src):
        # upstream: list of stages already collected (outer ... inner), nearest to the output cell last
        if isinstance(cell, tuple):
            cell = s_lin(cell)
        for a in lin_atoms(cell):
            d = diff(cell, a)
            if d.is_zero():
                continue
            dc = ONE
            one = d.single()
            if one is not None and one[1] != ONE:
                dc = one[1]
                d = Sum({one[0]: ONE})
            for t in a.payload:
                t = t.scaled(dc)
                if t.base.id == bx.id:
                    op = op_terms(transpose_tables(t, x_sizes), t.coef)
                    paths.append((tuple(t.bchan), src, [(op, d)] + upstream))
                elif t.base.role == 'rebased':
                    B1 = t.base
                    sizes = [s for k, s in B1.dims if k == 'S']
                    op = op_terms(transpose_tables(t, sizes), t.coef)
                    D1 = nonlin.REBASED[B1.id].cells[t.bchan]
                    back(D1, [(op, d)] + upstream, src)
                else:
                    raise AnalysisError('scat', 'forward output depends on an unexpected base %s' % t.base.name)

    for idx in np.ndindex(*Z.cells.shape):
        back(Z.cells[idx], [], tuple(idx))
    return paths


def normalise_paths(paths, canon):
    """merge paths that differ in the operator of one stage only; returns a canonical multiset"""
    def canon_op(terms):
        tt = [Term(DUMMY, (), [tb.subst(canon) for tb in t.tables], t.coef) for t in terms] if canon else terms
        return canon_cell_scaled(tt)
    cur = [(tgt, src, [(list(op), phi) for op, phi in st]) for tgt, src, st in paths]
    changed = True
    while changed:
        changed = False
        depth_max = max((len(p[2]) for p in cur), default=0)
        for k in range(depth_max):
            groups = {}
            for p in cur:
                tgt, src, st = p
                if len(st) <= k:
                    groups.setdefault(('short', id(p)), []).append(p)
                    continue
                key = (tgt, src, len(st), tuple(phi for _, phi in st),
                       tuple(canon_op(op) for i, (op, _) in enumerate(st) if i != k))
                groups.setdefault(key, []).append(p)
            if any(len(g) > 1 for g in groups.values()):
                new = []
                for g in groups.values():
                    if len(g) == 1:
                        new.append(g[0])
                        continue
                    tgt, src, st0 = g[0]
                    ops_k = []
                    for _, _, st in g:
                        ops_k.extend(st[k][0])
                    st = list(st0)
                    st[k] = (ops_k, st0[k][1])
                    new.append((tgt, src, st))
                cur = new
                changed = True
                break
    out = {}
    for tgt, src, st in cur:
        ops = tuple(canon_op(op) for op, _ in st)
        if any(len(o) == 0 for o in ops):
            continue
        key = (tgt, src, tuple((o, phi) for o, (_, phi) in zip(ops, st)))
        out[key] = out.get(key, 0) + 1
    return out


def w_scat_bwd(S, item):
    HOOKS['allow_nl'] = True
    try:
        return _scat_bwd(S, item)
    finally:
        HOOKS['allow_nl'] = False
        del nonlin.REBASE_LOG[:]
        nonlin.REBASED.clear()


def _scat_bwd(S, item):
    order, biort, H, W, C, colour = item[:6]
    mode = item[6] if len(item) > 6 else 'symmetric'
    res = {'cmp': 1, 'diff': 0, 'findings': [], 'sample': None}
    cls = 'ScatLayer' if order == 1 else 'ScatLayerj2'
    qshift = 'qshift_b_bp' if biort.endswith('_bp') else 'qshift_a'
    kw = dict(biort=biort, magbias=nonlin.Param(B), combine_colour=colour, mode=mode)
    if order == 2:
        kw['qshift'] = qshift
    m = S.construct(SC, cls, **kw)
    bx, x = base_tensor('x', 1, C, [H, W], requires_grad=True)
    bx.side = 'x'
    S.libs.apply_log = []
    del nonlin.REBASE_LOG[:]
    nonlin.REBASED.clear()
    disc0 = '%s%s%s' % ('colour' if colour else 'grey', ',bp' if biort.endswith('_bp') else '',
                        '' if mode == 'symmetric' else ',mode=' + mode)
    o = S.run(S.method(m, 'forward'), x)
    if not S.libs.apply_log:
        if o.kind != 'ok':
            res['diff'] = 1
            res['findings'].append(exc_finding(S, o, '%s.forward' % cls, disc0 + ':forward'))
            return res
        raise AnalysisError('anchor-missing', 'no scattering Function.apply on the %s path' % cls)
    rec = S.libs.apply_log[-1]
    fn = rec.cls.name
    construct = '%s.backward' % fn
    if o.kind != 'ok':
        res['diff'] = 1
        res['findings'].append(exc_finding(S, o, construct, disc0 + ':forward'))
        return res
    if not isinstance(rec.args[0], DataT):
        raise AnalysisError('scat', 'the layer does not pass a tensor to %s for size %dx%d' % (fn, H, W))
    if rec.args[0].base_of is not bx:
        # the layer hands the Function a (linearly) prepared copy of its input, e.g. an odd size extended by one
        # row/column with ordinary differentiable torch calls: autograd differentiates that part; the Function is
        # re-run on a fresh symbolic input of the shape it was given, with the call site's other arguments
        a0 = rec.args[0]
        if getattr(a0, 'nl', False):
            raise AnalysisError('scat', 'the layer passes a non-linear function of its input to %s' % fn)
        bx, x = base_tensor_dims('x', a0.dims, requires_grad=True)
        bx.side = 'x'
        S.libs.apply_log = []
        del nonlin.REBASE_LOG[:]
        nonlin.REBASED.clear()
        o = S.run(S.interp.getattr(rec.cls, 'apply'), x, *rec.args[1:])
        if o.kind != 'ok':
            res['diff'] = 1
            res['findings'].append(exc_finding(S, o, construct, disc0 + ':forward'))
            return res
        rec = S.libs.apply_log[-1]
    Z = rec.out
    bg, g = base_tensor_dims('dZ', [d if d[0] == 'E' else d for d in Z.dims])
    bg.side = 'g'
    from ..pyinterp import StaticMethod
    bwd = rec.cls.lookup('backward')
    bwd = bwd.func if isinstance(bwd, StaticMethod) else bwd
    from .dwtlib import ctx_versions, ctx_mutations
    saved0 = ctx_versions(rec.ctx)
    S.interp.nograd += 1
    try:
        o2 = S.run(bwd, rec.ctx, g)
    finally:
        S.interp.nograd = 0
    problems = []
    for m_ in ctx_mutations(saved0):
        problems.append(('saved-state-mutated', 'backward overwrites %s: a repeated backward through the same graph '
                         '(retain_graph, one grad call per output, jacobian) no longer computes the gradient' % m_))
    anchor_b = anchor(S, SL, fn, 'backward')
    if o2.kind != 'ok':
        e = o2.exc
        d = finding('BWD', construct, '%s:raises' % disc0, 'backward raises %s: %s'
                    % (getattr(e, 'name', type(e).__name__), str(getattr(e, 'msg', e))[:140]), anchor=anchor_b)
        loc = getattr(e, 'loc', None)
        if loc is not None:
            d['file'], d['line'], d['function'], d['statement'] = loc.file, loc.line, loc.func, loc.text
        res['diff'] = 1
        res['findings'].append(d)
        return res
    grads = o2.value if isinstance(o2.value, tuple) else (o2.value,)
    if len(grads) < len(rec.args):
        problems.append(('arity', 'backward returns %d gradients for %d forward inputs' % (len(grads), len(rec.args))))
    elif any(gr is not None for gr in grads[1:]):
        problems.append(('arity', 'a gradient is returned for a non-differentiable input'))
    dX = grads[0] if grads else None
    if not problems:
        if not isinstance(dX, DataT):
            problems.append(('missing-gradient', 'the input requires grad but backward returns %s' % type(dX).__name__))
        elif getattr(dX, 'nl', False):
            dX = nonlin.rebase(dX)
        if isinstance(dX, DataT) and list(dX.shape) != list(x.shape):
            problems.append(('shape', 'gradient has shape %s, input %s' % (list(dX.shape), list(x.shape))))
    if not problems:
        memo = {}
        pr = []
        ip = impl_paths(dX, memo, pr)
        if pr:
            problems.append(('structure', pr[0]))
        else:
            tp = true_paths(Z, bx, memo)
            from .. import npz
            import os
            lens = {}
            for nm in (biort, qshift):
                t = npz.read_npz(os.path.join(S.repo, 'pytorch_wavelets/dtcwt/data', nm + '.npz'))
                for k, a in t.items():
                    lens[(nm, k)] = int(a.size)
            canon = table_symmetries(biort, qshift, lens)
            ni, nt = normalise_paths(ip, canon), normalise_paths(tp, canon)
            if ni != nt:
                only_i = [k for k in ni if k not in nt]
                only_t = [k for k in nt if k not in ni]
                what = 'gradient'
                msg = '%d gradient paths of the backward have no counterpart in the derivative of the forward, %d ' \
                      'paths of the derivative are missing (of %d / %d)' % (len(only_i), len(only_t), len(ni), len(nt))
                if only_i and only_t:
                    a, b_ = only_i[0], only_t[0]
                    same_ops = [k for k in only_t if k[0] == a[0] and k[1] == a[1] and
                                tuple(o for o, _ in k[2]) == tuple(o for o, _ in a[2])]
                    same_phi = [k for k in only_t if k[0] == a[0] and k[1] == a[1] and
                                tuple(p for _, p in k[2]) == tuple(p for _, p in a[2])]
                    if same_ops:
                        what = 'pointwise-factor'
                        msg += '; e.g. cotangent cell %s -> input slice %s: the pointwise factor is %r, the derivative ' \
                               'of the forward gives %r' % (a[1], a[0], [p for _, p in a[2]], [p for _, p in same_ops[0][2]])
                    elif same_phi:
                        what = 'linear-stage'
                        msg += '; e.g. cotangent cell %s -> input slice %s: right pointwise factors, wrong linear ' \
                               'operator (filters / upsampling / scaling)' % (a[1], a[0])
                    else:
                        msg += '; e.g. cotangent cell %s -> input slice %s' % (a[1], a[0])
                problems.append((what, msg))
            res['paths'] = (len(ni), len(nt))
    # finiteness: every division / square root met in forward outputs, saved tensors and backward intermediates
    haz = []
    seen = set()
    for idx in np.ndindex(*Z.cells.shape):
        c = Z.cells[idx]
        if not isinstance(c, tuple):
            division_hazards(c, 'forward output %s' % (idx,), haz, seen)
    for bid, D in list(nonlin.REBASED.items()):
        for idx in np.ndindex(*D.cells.shape):
            c = D.cells[idx]
            if not isinstance(c, tuple):
                division_hazards(c, 'intermediate', haz, seen)
    for t in (rec.ctx.saved_tensors or ()):
        if isinstance(t, DataT) and getattr(t, 'nl', False):
            for idx in np.ndindex(*t.cells.shape):
                division_hazards(t.cells[idx], 'saved tensor', haz, seen)
    if haz:
        problems.append(('not-finite', haz[0]))
    for what, msg in problems[:2]:
        res['diff'] = 1
        res['findings'].append(finding('GRAD', construct, '%s:%s' % (disc0, what),
                                       'biort=%s HxW=%dx%d C=%d colour=%s: %s' % (biort, H, W, C, colour, msg),
                                       anchor=anchor_b, detail={'config': list(item)}))
    if not problems:
        res['sample'] = {'config': dict(order=order, biort=biort, H=H, W=W, C=C, colour=colour),
                         'gradient_paths': res.get('paths'), 'verdict': 'backward == reverse-mode derivative of the forward '
                         'expression DAG; all denominators bounded below by |b|'}
    res.pop('paths', None)
    for fi in S.take_findings():
        res['findings'].append(fi.as_dict())
    return res


def w_smoothmag(S, item):
    """SmoothMagFn: forward formula, gradient for every subset of inputs requiring grad, finiteness"""
    mask, = item
    res = {'cmp': 1, 'diff': 0, 'findings': [], 'sample': None}
    HOOKS['allow_nl'] = True
    try:
        fn = S.get(SL, 'SmoothMagFn')
        bx, x = base_tensor('x', 1, 2, [4, 6], requires_grad=bool(mask & 1))
        by, y = base_tensor('y', 1, 2, [4, 6], requires_grad=bool(mask & 2))
        bx.side = by.side = 'x'
        S.libs.apply_log = []
        o = S.run(S.interp.getattr(fn, 'apply'), x, y, nonlin.Param(B))
        construct = 'SmoothMagFn.backward'
        disc0 = 'requires_grad=%s' % bin(mask)
        if o.kind != 'ok':
            res['diff'] = 1
            res['findings'].append(exc_finding(S, o, 'SmoothMagFn.forward', disc0))
            return res
        rec = S.libs.apply_log[-1]
        r = o.value
        problems = []
        for idx in np.ndindex(*r.cells.shape):
            e = mag_field([(x.cells[idx], y.cells[idx])])
            if r.cells[idx] != e:
                problems.append(('formula', 'forward is not sqrt(x^2+y^2+b^2)-b'))
                break
        bg, g = base_tensor_dims('dr', r.dims)
        bg.side = 'g'
        from ..pyinterp import StaticMethod
        bwd = rec.cls.lookup('backward')
        bwd = bwd.func if isinstance(bwd, StaticMethod) else bwd
        S.interp.nograd += 1
        try:
            o2 = S.run(bwd, rec.ctx, g)
        finally:
            S.interp.nograd = 0
        if o2.kind != 'ok':
            e = o2.exc
            problems.append(('raises', 'backward raises %s: %s' % (getattr(e, 'name', type(e).__name__), str(getattr(e, 'msg', e))[:120])))
        else:
            grads = o2.value if isinstance(o2.value, tuple) else (o2.value,)
            if len(grads) < 3 or (len(grads) > 2 and grads[2] is not None):
                problems.append(('arity', 'backward must return (dx, dy, None)'))
            for slot, (inp, need) in enumerate(((x, mask & 1), (y, mask & 2))):
                if not need or len(grads) <= slot:
                    continue
                gr = grads[slot]
                if not isinstance(gr, DataT):
                    problems.append(('missing-gradient', 'input %d requires grad but backward returns None' % slot))
                    continue
                for idx in np.ndindex(*r.cells.shape):
                    f = r.cells[idx]
                    a = nonlin.lin_atom(inp.cells[idx])
                    want = s_mul(diff(f, a), s_lin(g.cells[idx]))
                    got = gr.cells[idx] if not isinstance(gr.cells[idx], tuple) else s_lin(gr.cells[idx])
                    if got != want:
                        problems.append(('gradient', 'gradient of input %d is %r, the derivative is %r' % (slot, got, want)))
                        break
                    haz = []
                    division_hazards(got, 'gradient %d' % slot, haz)
                    if haz:
                        problems.append(('not-finite', haz[0]))
                        break
        for what, msg in problems[:2]:
            res['diff'] = 1
            res['findings'].append(finding('GRAD', construct, '%s:%s' % (disc0, what), msg,
                                           anchor=anchor(S, SL, 'SmoothMagFn', 'backward')))
        if not problems:
            res['sample'] = {'config': {'requires_grad_mask': mask}, 'verdict': 'dx = x/r * dr, dy = y/r * dr, r >= |b| > 0'}
        for fi in S.take_findings():
            res['findings'].append(fi.as_dict())
        return res
    finally:
        HOOKS['allow_nl'] = False
        del nonlin.REBASE_LOG[:]
        nonlin.REBASED.clear()
