import sys
from .run import main
sys.exit(main())
