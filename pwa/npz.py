"""E4: read .npz filter tables as static data (zip + .npy header), no pickle, no import of the package."""
import ast
import struct
import zipfile
import hashlib

import numpy as np

from .errors import AnalysisError


def read_npy(buf):
    if buf[:6] != b'\x93NUMPY':
        raise AnalysisError('npz', 'not an .npy member')
    major = buf[6]
    if major == 1:
        hlen = struct.unpack('<H', buf[8:10])[0]
        off = 10
    else:
        hlen = struct.unpack('<I', buf[8:12])[0]
        off = 12
    header = ast.literal_eval(buf[off:off + hlen].decode('latin1'))
    descr, fortran, shape = header['descr'], header['fortran_order'], header['shape']
    if 'O' in descr:
        raise AnalysisError('npz', 'object array in filter table (would need pickle)')
    dt = np.dtype(descr)
    data = np.frombuffer(buf[off + hlen:], dtype=dt)
    n = int(np.prod(shape)) if shape else 1
    data = data[:n]
    arr = data.reshape(shape, order='F' if fortran else 'C')
    return np.array(arr)


def read_npz(path):
    out = {}
    with zipfile.ZipFile(path) as z:
        for name in z.namelist():
            if not name.endswith('.npy'):
                continue
            out[name[:-4]] = read_npy(z.read(name))
    return out


def digest(path):
    with open(path, 'rb') as f:
        return hashlib.sha256(f.read()).hexdigest()


class FileHandle:
    def __init__(self, path):
        self.path = path

    def close(self):
        pass


class NpzMapping:
    """What numpy.load returns for a filter table, abstractly: key -> symbolic array whose
    role is (file basename, key) and whose shape is the stored shape."""

    def __init__(self, path, arrays):
        import os
        self.path = path
        self.basename = os.path.splitext(os.path.basename(path))[0]
        self._arrays = arrays
        self._cache = {}

    def keys(self):
        return list(self._arrays.keys())

    @property
    def files(self):
        return self.keys()

    def __contains__(self, k):
        return k in self._arrays

    def __iter__(self):
        return iter(self.keys())

    def items(self):
        return [(k, self[k]) for k in self.keys()]

    def __getitem__(self, k):
        from .sym import Sym
        from .domain import Poly
        if k not in self._arrays:
            raise KeyError(k)
        if k not in self._cache:
            a = self._arrays[k]
            if a.dtype.kind not in 'fiu' or a.size == 0 or k.startswith('__'):
                self._cache[k] = a          # MATLAB header members: plain data, never a filter
                return a
            arr = np.empty(a.shape, dtype=object)
            flat = 0
            for idx in np.ndindex(*a.shape):
                arr[idx] = Poly.sym(('npz', self.basename, k), flat)
                flat += 1
            s = Sym(arr, 'np', 'float64', origin='cache')
            s.table_key = (self.basename, k)
            self._cache[k] = s
        return self._cache[k]


def load_mapping(path):
    return NpzMapping(path, read_npz(path))
