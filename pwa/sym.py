"""Symbolic filter arrays (numpy arrays / torch constant tensors of tap symbols)."""
import numpy as np

from .domain import Poly, Prod, Q2, TorchSize, Storage, POLY_ONE, is_const_scalar
from .errors import AnalysisError, PyExc


def _obj(a):
    if isinstance(a, np.ndarray) and a.dtype == object:
        return a
    out = np.empty(np.shape(a), dtype=object)
    for i in np.ndindex(*out.shape):
        v = a[i] if isinstance(a, np.ndarray) else np.asarray(a, dtype=object)[i]
        out[i] = v if isinstance(v, (Poly, Prod)) else Poly.const(v)
    return out


class Sym:
    """lib == 'np': numpy ndarray of tap polynomials; lib == 'torch': constant torch tensor."""

    def __init__(self, arr, lib='np', dtype='float64', origin='fresh', storage=None, device='cpu'):
        self.arr = arr
        self.lib = lib
        self.dtype = dtype
        self.storage = storage if storage is not None else Storage(origin)
        self.requires_grad = False
        self.device = device
        self.is_view = storage is not None

    def like(self, arr, view=False):
        return Sym(arr, self.lib, self.dtype, storage=self.storage if view else None, device=self.device)

    # numpy & torch
    @property
    def shape(self):
        return TorchSize(self.arr.shape) if self.lib == 'torch' else tuple(self.arr.shape)

    @property
    def ndim(self):
        return self.arr.ndim

    def dim(self):
        return self.arr.ndim

    def numel(self):
        return int(self.arr.size)

    @property
    def size(self):
        if self.lib == 'torch':
            return lambda d=None: self.shape if d is None else self.shape[d]
        return int(self.arr.size)

    @property
    def T(self):
        return self.like(self.arr.T, view=True)

    def __len__(self):
        if self.arr.ndim == 0:
            raise PyExc('TypeError', 'len() of a 0-d array')
        return self.arr.shape[0]

    def __iter__(self):
        for i in range(len(self)):
            yield self[i]

    def __getitem__(self, idx):
        def conv(i):
            if isinstance(i, tuple):
                return tuple(conv(j) for j in i)
            if isinstance(i, Sym):
                raise AnalysisError('unsupported', 'symbolic index')
            return i
        try:
            r = self.arr[conv(idx)]
        except IndexError as e:
            raise PyExc('IndexError', str(e))
        if isinstance(r, np.ndarray):
            return self.like(r, view=True)
        if self.lib == 'torch':
            a = np.empty((), dtype=object)
            a[()] = r
            return self.like(a, view=True)
        return r

    def ravel(self):
        return self.like(self.arr.ravel())

    def flatten(self):
        return self.like(self.arr.flatten())

    def copy(self):
        return self.like(self.arr.copy())

    def _shape_args(self, shape):
        if len(shape) == 1 and isinstance(shape[0], (tuple, list)):
            shape = tuple(shape[0])
        return tuple(int(s) for s in shape)

    def reshape(self, *shape):
        try:
            return self.like(self.arr.reshape(self._shape_args(shape)), view=True)
        except ValueError as e:
            raise PyExc('RuntimeError' if self.lib == 'torch' else 'ValueError', str(e))

    def view(self, *shape):
        return self.reshape(*shape)

    def transpose(self, *axes):
        if self.lib == 'torch':
            if len(axes) != 2:
                raise PyExc('TypeError', 'transpose() takes 2 dims')
            return self.like(np.swapaxes(self.arr, axes[0], axes[1]), view=True)
        if len(axes) == 1 and isinstance(axes[0], (tuple, list)):
            axes = tuple(axes[0])
        return self.like(self.arr.transpose(*axes) if axes else self.arr.T, view=True)

    def permute(self, *axes):
        if len(axes) == 1 and isinstance(axes[0], (tuple, list)):
            axes = tuple(axes[0])
        return self.like(self.arr.transpose(axes), view=True)

    def contiguous(self):
        return self

    def clone(self):
        return self.like(self.arr.copy())

    def detach(self):
        return self

    def repeat(self, *sizes):
        if self.lib != 'torch':
            raise AnalysisError('unsupported', 'ndarray.repeat method')
        sizes = self._shape_args(sizes)
        if len(sizes) < self.arr.ndim:
            raise PyExc('RuntimeError', 'Number of dimensions of repeat dims can not be smaller than number of '
                        'dimensions of tensor')
        return self.like(np.tile(self.arr, sizes))

    def squeeze(self, d=None):
        return self.like(np.squeeze(self.arr, axis=d), view=True)

    def unsqueeze(self, d):
        return self.like(np.expand_dims(self.arr, d), view=True)

    def to(self, *a, **k):
        # .to(dtype) / .to(other_tensor) / .to(device): only the dtype provenance matters here
        tag = None
        for x in list(a) + [k.get('dtype'), k.get('other')]:
            if x is None:
                continue
            if hasattr(x, 'tag') and type(x).__name__ == 'DType':
                tag = x.tag
            elif hasattr(x, 'dims') and hasattr(x, 'dtype'):
                tag = x.dtype
        if tag is None or tag == self.dtype:
            return self
        r = Sym(self.arr, self.lib, tag, storage=None, device=self.device)
        return r

    def type_as(self, other):
        return self.to(other)

    def astype(self, *a, **k):
        return self.like(self.arr.copy())

    def flip(self, *dims):
        if len(dims) == 1 and isinstance(dims[0], (tuple, list)):
            dims = tuple(dims[0])
        return self.like(np.flip(self.arr, axis=tuple(dims)))

    def tobytes(self):
        return repr([repr(e) for e in self.arr.ravel()]).encode() + repr(self.arr.shape).encode()

    def tolist(self):
        return self.arr.tolist()

    def _arith(self, o, fn):
        if isinstance(o, Sym):
            o = o.arr
        elif not (is_const_scalar(o) or isinstance(o, (Poly, Q2))):
            return NotImplemented
        return self.like(fn(self.arr, o))

    def __mul__(self, o):
        return self._arith(o, lambda a, b: a * b)
    __rmul__ = __mul__

    def __truediv__(self, o):
        if is_const_scalar(o) or isinstance(o, Q2):
            return self._arith(Q2.of(o).inv(), lambda a, b: a * b)
        return NotImplemented

    def __add__(self, o):
        return self._arith(o, lambda a, b: a + b)
    __radd__ = __add__

    def __sub__(self, o):
        return self._arith(o, lambda a, b: a - b)

    def __neg__(self):
        return self.like(-self.arr)

    def __repr__(self):
        return '<Sym %s %s %s>' % (self.lib, self.arr.shape, self.dtype)


def sym_from(obj):
    """np.array(...) over symbolic material: lists of Poly, Sym arrays, nested lists."""
    if isinstance(obj, Sym):
        return obj.arr.copy()
    if isinstance(obj, (Poly, Prod)):
        a = np.empty((), dtype=object)
        a[()] = obj
        return a
    if isinstance(obj, (list, tuple)):
        parts = [sym_from(x) for x in obj]
        if not parts:
            return np.empty((0,), dtype=object)
        shp = parts[0].shape
        if any(p.shape != shp for p in parts):
            raise PyExc('ValueError', 'setting an array element with a sequence (inhomogeneous shape)')
        out = np.empty((len(parts),) + shp, dtype=object)
        for i, p in enumerate(parts):
            if shp == ():
                out[i] = p[()]
            else:
                out[i] = p
        return out
    if is_const_scalar(obj) or isinstance(obj, Q2):
        a = np.empty((), dtype=object)
        a[()] = Poly.const(obj)
        return a
    if isinstance(obj, np.ndarray):
        return _obj(obj)
    raise AnalysisError('unsupported', 'cannot build a symbolic array from %s' % type(obj).__name__)


def contains_sym(obj):
    if isinstance(obj, (Sym, Poly, Prod)):
        return True
    if isinstance(obj, (list, tuple)):
        return any(contains_sym(x) for x in obj)
    return False


def outer(u, v):
    u = sym_from(u).ravel()
    v = sym_from(v).ravel()
    out = np.empty((len(u), len(v)), dtype=object)
    for i in range(len(u)):
        for j in range(len(v)):
            out[i, j] = Prod(u[i], v[j])
    return out


def factor_kernel(K):
    """Split a (kh, kw) kernel into per-axis weight lists (u along H, v along W)."""
    kh, kw = K.shape
    if all(isinstance(e, Prod) for e in K.flat):
        u = [K[a, 0].u for a in range(kh)]
        v = [K[0, b].v for b in range(kw)]
        for a in range(kh):
            for b in range(kw):
                if K[a, b].u != u[a] or K[a, b].v != v[b]:
                    raise AnalysisError('unsupported', 'kernel is not a consistent outer product')
        return u, v
    if any(isinstance(e, Prod) for e in K.flat):
        raise AnalysisError('unsupported', 'mixed kernel elements')
    if kw == 1:
        return [K[a, 0] for a in range(kh)], [POLY_ONE]
    if kh == 1:
        return [POLY_ONE], [K[0, b] for b in range(kw)]
    raise AnalysisError('unsupported', 'dense 2-D kernel that is not an outer product')
