"""CLI: python -m pwa check <ID> [--tier quick|thorough] [--repo /repo] [-j N]

exit 0  no unlisted violation (KNOWN-FINDING lines for listed ones)
exit 1  VIOLATION property=<id> replay=<path>
exit 2  ANALYSIS-ERROR (the engine could not follow the code / anchor missing / internal error)
"""
import argparse
import importlib
import json
import os
import sys
import time
import traceback

from .errors import AnalysisError, Finding

VERIF = os.path.dirname(os.path.dirname(os.path.abspath(__file__)))
PROPS = ['C%02d' % i for i in range(1, 20)]


class CheckContext:
    def __init__(self, prop, repo, tier, jobs, seed):
        self.prop, self.repo, self.tier, self.jobs, self.seed = prop, repo, tier, jobs, seed
        self.quick = tier == 'quick'


class Result:
    def __init__(self, level, coverage, findings, assumptions=None, notes=None):
        self.level, self.coverage, self.findings = level, coverage, findings
        self.assumptions = assumptions or []
        self.notes = notes or []


def load_known():
    p = os.path.join(VERIF, 'known_findings.json')
    if not os.path.isfile(p):
        return {}, []
    with open(p) as f:
        d = json.load(f)
    return {e['key']: e for e in d.get('findings', [])}, d.get('fixed', [])


def fdict(f):
    return f.as_dict() if isinstance(f, Finding) else f


def run_check(prop, repo, tier, jobs, seed, out=sys.stdout):
    t0 = time.time()
    ev_dir = os.environ.get('PWA_EVIDENCE_DIR') or os.path.join(VERIF, 'evidence')
    ev_path = os.path.join(ev_dir, '%s.json' % prop)
    replay_path = os.path.join(ev_dir, '%s.replay.json' % prop)
    os.makedirs(os.path.dirname(ev_path), exist_ok=True)
    for p in (replay_path,):
        if os.path.exists(p):
            os.remove(p)
    ctx = CheckContext(prop, os.path.abspath(repo), tier, jobs, seed)
    from . import parallel as _par
    del _par.ERRORS[:]

    def first_error():
        kind, msg = _par.ERRORS[0]
        return 'ANALYSIS-ERROR property=%s kind=%s %s%s' % (
            prop, kind, msg, ' (and %d more configuration(s))' % (len(_par.ERRORS) - 1) if len(_par.ERRORS) > 1 else '')
    try:
        mod = importlib.import_module('pwa.props.%s' % prop.lower())
        res = mod.check(ctx)
    except AnalysisError as e:
        if _par.ERRORS and e.kind == 'instance-count':
            print(first_error(), file=out)
            return 2
        print('ANALYSIS-ERROR property=%s kind=%s %s%s' % (prop, e.kind, e.msg,
              (' at %s' % (e.loc,)) if getattr(e, 'loc', None) else ''), file=out)
        return 2
    except Exception:
        print('ANALYSIS-ERROR property=%s kind=internal' % prop, file=out)
        traceback.print_exc(file=out)
        return 2
    known, fixed = load_known()
    findings = [fdict(f) for f in res.findings]
    uniq = {}
    for f in findings:
        if f.get('severity', 'violation') != 'violation':
            continue
        uniq.setdefault(f['key'], []).append(f)
    notes = [f for f in findings if f.get('severity') == 'note']
    unlisted = {k: v for k, v in uniq.items() if k not in known}
    listed = {k: v for k, v in uniq.items() if k in known}
    for k in sorted(listed):
        print('KNOWN-FINDING: property=%s %s -- %s (%d instance(s) this run)'
              % (prop, k, known[k].get('description', listed[k][0]['msg']), len(listed[k])), file=out)
    for n in notes[:20]:
        print('NOTE property=%s %s:%s rule=%s %s' % (prop, n.get('file'), n.get('line'), n.get('rule'), n.get('msg')),
              file=out)
    cov = dict(res.coverage)
    from . import parallel
    import hashlib
    files = {}
    pk = os.path.join(ctx.repo, 'pytorch_wavelets')
    for dp, dn, fn in os.walk(pk):
        for f in sorted(fn):
            if f.endswith(('.py', '.npz')):
                p = os.path.join(dp, f)
                files[os.path.relpath(p, ctx.repo)] = hashlib.sha256(open(p, 'rb').read()).hexdigest()[:12]
    cov.setdefault('analysed', {
        'source_tree': ctx.repo, 'files_sha256_prefix': files,
        'repository_functions_interpreted': len(parallel.FUNCS),
        'abstract_calls': int(sum(parallel.FUNCS.values())),
        'most_called': sorted(parallel.FUNCS.items(), key=lambda kv: -kv[1])[:12],
        'functions': sorted(k.replace('pytorch_wavelets.', '') for k in parallel.FUNCS),
        'rule': 'the repository source is parsed and interpreted abstractly on every run; nothing is imported or executed'})
    cov.setdefault('known_findings_matched', sorted(listed))
    cov.setdefault('notes', [n.get('msg') for n in notes[:20]])
    if _par.ERRORS:
        cov['configurations_not_analysed'] = len(_par.ERRORS)
        cov['first_analysis_error'] = '%s: %s' % _par.ERRORS[0]
        if not unlisted:
            # nothing to report and part of the grid could not be followed: the run decides nothing
            print(first_error(), file=out)
            return 2
    evidence = {
        'property_id': prop, 'tier': tier, 'seed': seed, 'level': res.level, 'coverage': cov,
        'assumptions': res.assumptions, 'wall_s': round(time.time() - t0, 3), 'violations': len(unlisted),
    }
    with open(ev_path, 'w') as f:
        json.dump(evidence, f, indent=1, default=str)
    if unlisted:
        with open(replay_path, 'w') as f:
            json.dump({'property': prop, 'tier': tier, 'repo': ctx.repo,
                       'reproduce': '/venv/bin/python -m pwa check %s --tier %s --repo %s' % (prop, tier, ctx.repo),
                       'findings': [v[0] for v in unlisted.values()],
                       'instances': {k: len(v) for k, v in unlisted.items()}}, f, indent=1, default=str)
        print('VIOLATION property=%s replay=%s' % (prop, replay_path), file=out)
        for k in sorted(unlisted):
            f0 = unlisted[k][0]
            print('  %s:%s rule=%s construct=%s [%s] msg=%s (%d instance(s))%s'
                  % (f0.get('file'), f0.get('line'), f0.get('rule'), f0.get('construct'), f0.get('discriminator'),
                     f0.get('msg'), len(unlisted[k]),
                     (' interpreted=' + ','.join(f0['call_path'][:12])) if f0.get('call_path') else ''), file=out)
        if _par.ERRORS:
            print('NOTE ' + first_error() + ' -- the violation(s) above were found on the configurations that '
                  'could be analysed', file=out)
        return 1
    print('OK property=%s tier=%s wall=%.1fs %s' % (prop, tier, time.time() - t0,
          json.dumps({k: v for k, v in cov.items() if isinstance(v, (int, float, bool))})), file=out)
    return 0


def main(argv=None):
    ap = argparse.ArgumentParser(prog='pwa')
    sub = ap.add_subparsers(dest='cmd')
    c = sub.add_parser('check')
    c.add_argument('prop')
    c.add_argument('--tier', default=os.environ.get('VERIF_TIER', 'quick'), choices=['quick', 'thorough'])
    c.add_argument('--repo', default='/repo')
    c.add_argument('-j', '--jobs', type=int, default=min(16, os.cpu_count() or 1))
    s = sub.add_parser('selftest')
    s.add_argument('--repo', default='/repo')
    s.add_argument('-j', '--jobs', type=int, default=min(16, os.cpu_count() or 1))
    s.add_argument('--only', default=None)
    sd = sub.add_parser('seeded')
    sd.add_argument('--repo', default='/repo')
    sd.add_argument('-j', '--jobs', type=int, default=min(16, os.cpu_count() or 1))
    sd.add_argument('--only', default=None)
    nt = sub.add_parser('neutral')
    nt.add_argument('--repo', default='/repo')
    nt.add_argument('-j', '--jobs', type=int, default=min(16, os.cpu_count() or 1))
    nt.add_argument('--only', default=None)
    a = ap.parse_args(argv)
    seed = int(os.environ.get('VERIF_SEED', '0') or 0)
    if a.cmd == 'check':
        if a.prop == 'all':
            rc = 0
            for p in PROPS:
                rc = max(rc, run_check(p, a.repo, a.tier, a.jobs, seed))
            return rc
        return run_check(a.prop.upper(), a.repo, a.tier, a.jobs, seed)
    if a.cmd == 'selftest':
        from .selftest import driver
        return driver.main(a)
    if a.cmd == 'neutral':
        from .selftest import neutral
        return neutral.main(a)
    if a.cmd == 'seeded':
        from .selftest import seeded
        return seeded.main(a)
    ap.print_help()
    return 2


if __name__ == '__main__':
    sys.exit(main())
