"""Pointwise non-linear expressions over linear fields (the scattering magnitudes and their gradients).

A non-linear tensor is a DataT with ``nl = True`` whose cells are ``Sum`` objects: a normal form

    Sum   = { Mono : coefficient in Q(sqrt 2) }
    Mono  = { Atom : rational exponent }
    Atom  = lin(terms)        a linear field (product terms with axis tables) on the cell's spatial grid
          | param(name)       a symbolic real parameter (the magnitude bias b)
          | sum(Sum)          a parenthesised sum raised to a power / used as a factor

modulo commutativity / associativity of + and *, exponent arithmetic (sqrt = ^1/2, 1/x = ^-1) and merging of
linear fields.  Two cells are the same function of the inputs (for all inputs, in real arithmetic, wherever
defined) if their normal forms are equal.  Spatial linear primitives applied to a non-linear tensor re-base it:
the tensor becomes a new Base whose definition is remembered, and analysis continues linearly over that base.
"""
from fractions import Fraction
import itertools

import numpy as np

from .errors import AnalysisError, PyExc
from .domain import HOOKS, DataT, Q2, ONE, ZERO, Term, Base, canon_cell, is_const_scalar


class Atom:
    __slots__ = ('kind', 'key', 'payload', '_h')

    def __init__(self, kind, key, payload=None):
        self.kind, self.key, self.payload = kind, key, payload
        self._h = hash((kind, key))

    def __eq__(self, o):
        return isinstance(o, Atom) and self.kind == o.kind and self.key == o.key

    def __hash__(self):
        return self._h

    def __repr__(self):
        if self.kind == 'param':
            return self.key
        if self.kind == 'lin':
            return 'lin#%x' % (hash(self.key) & 0xffff)
        return '(%r)' % (self.payload,)


def lin_atom(terms):
    terms = tuple(t for t in terms if not t.is_zero())
    return Atom('lin', canon_cell(terms), terms)


def param_atom(name):
    return Atom('param', name)


class Sum:
    """normal form; immutable"""
    __slots__ = ('d', '_h')

    def __init__(self, d):
        self.d = {m: c for m, c in d.items() if not c.is_zero()}
        self._h = None

    def __eq__(self, o):
        return isinstance(o, Sum) and self.d == o.d

    def __hash__(self):
        if self._h is None:
            self._h = hash(frozenset(self.d.items()))
        return self._h

    def is_zero(self):
        return not self.d

    def single(self):
        if len(self.d) == 1:
            return next(iter(self.d.items()))
        return None

    def is_const(self):
        return all(len(m) == 0 for m in self.d)

    def atoms(self):
        out = set()
        for m in self.d:
            for a, e in m:
                out.add(a)
                if a.kind == 'sum':
                    out |= a.payload.atoms()
        return out

    def __repr__(self):
        if not self.d:
            return '0'
        parts = []
        for m, c in sorted(self.d.items(), key=lambda kv: repr(sorted(map(repr, kv[0])))):
            fs = '*'.join(('%r' % a) + ('' if e == 1 else '^%s' % e) for a, e in sorted(m, key=lambda ae: repr(ae[0])))
            parts.append(('%r*' % c if c != ONE or not fs else '') + (fs or ''))
        return ' + '.join(parts)


EMPTY = frozenset()


def s_const(c):
    c = Q2.of(c)
    return Sum({EMPTY: c})


def s_atom(a, e=1):
    return Sum({frozenset([(a, Fraction(e))]): ONE})


def s_param(name):
    return s_atom(param_atom(name))


def s_lin(terms):
    a = lin_atom(terms)
    if not a.payload:
        return Sum({})
    return s_atom(a)


def _merge_lin(d):
    """merge all monomials that are a bare linear field into one linear field"""
    lin = [(m, c) for m, c in d.items() if len(m) == 1 and next(iter(m))[0].kind == 'lin' and next(iter(m))[1] == 1]
    if len(lin) <= 1:
        return d              # a single linear field keeps its scalar coefficient outside the atom
    terms = []
    for m, c in lin:
        a = next(iter(m))[0]
        terms.extend(t.scaled(c) for t in a.payload)
        del d[m]
    a = lin_atom(terms)
    if a.payload:
        d[frozenset([(a, Fraction(1))])] = ONE
    return d


def s_add(a, b, sign=1):
    d = dict(a.d)
    for m, c in b.d.items():
        c = c if sign == 1 else -c
        v = d.get(m)
        v = c if v is None else v + c
        if v.is_zero():
            d.pop(m, None)
        else:
            d[m] = v
    return Sum(_merge_lin(d))


def s_scale(a, c):
    c = Q2.of(c)
    if c.is_zero():
        return Sum({})
    d = {m: v * c for m, v in a.d.items()}
    return Sum(_merge_lin(d) if any(v != ONE for v in d.values()) else d)


def _mono_mul(m1, m2):
    d = dict(m1)
    for a, e in m2:
        v = d.get(a, 0) + e
        if v == 0:
            d.pop(a, None)
        else:
            d[a] = v
    return frozenset(d.items())


def _as_factor(s):
    """(mono, coef) usable as a factor"""
    one = s.single()
    if one is not None:
        return one
    if s.is_zero():
        return None
    return frozenset([(Atom('sum', s, s), Fraction(1))]), ONE


def s_mul(a, b):
    fa, fb = _as_factor(a), _as_factor(b)
    if fa is None or fb is None:
        return Sum({})
    # distribute a constant or a single monomial over a sum only when one side is constant
    if a.is_const() and a.single() is not None:
        return s_scale(b, a.single()[1])
    if b.is_const() and b.single() is not None:
        return s_scale(a, b.single()[1])
    return Sum({_mono_mul(fa[0], fb[0]): fa[1] * fb[1]})


def _coef_pow(c, e):
    if c == ONE:
        return ONE
    if e.denominator == 1:
        n = int(e)
        if n >= 0:
            return c ** n
        return c.inv() ** (-n)
    if c.b == 0 and c.a > 0:
        # rational perfect powers only
        num, den = c.a.numerator, c.a.denominator
        rn, rd = round(num ** (1 / e.denominator)), round(den ** (1 / e.denominator))
        if rn ** e.denominator == num and rd ** e.denominator == den:
            return _coef_pow(Q2(Fraction(rn, rd)), Fraction(e.numerator))
    return None


def s_pow(a, e):
    e = Fraction(e)
    if e == 1:
        return a
    if e == 0:
        return s_const(1)
    one = a.single()
    if one is not None:
        m, c = one
        cp = _coef_pow(c, e)
        if cp is not None:
            return Sum({frozenset((at, ex * e) for at, ex in m): cp})
    if a.is_zero():
        if e > 0:
            return Sum({})
        raise PyExc('ZeroDivisionError', 'division by a tensor that is identically zero')
    return Sum({frozenset([(Atom('sum', a, a), e)]): ONE})


# ----------------------------------------------------------------- parameters
class Param:
    """symbolic real scalar usable in Python arithmetic of the analysed code (magbias)"""

    def __init__(self, name=None, expr=None, positive=True):
        self.expr = expr if expr is not None else s_param(name)
        self.name = name
        self.positive = positive

    def _wrap(self, o):
        if isinstance(o, Param):
            return o.expr
        if is_const_scalar(o) or isinstance(o, Q2):
            return s_const(o)
        return None

    def __add__(self, o):
        if isinstance(o, DataT):
            return pointwise('add', self, o)
        w = self._wrap(o)
        return NotImplemented if w is None else Param(expr=s_add(self.expr, w))
    __radd__ = __add__

    def __sub__(self, o):
        if isinstance(o, DataT):
            return pointwise('sub', self, o)
        w = self._wrap(o)
        return NotImplemented if w is None else Param(expr=s_add(self.expr, w, -1))

    def __rsub__(self, o):
        if isinstance(o, DataT):
            return pointwise('sub', o, self)
        w = self._wrap(o)
        return NotImplemented if w is None else Param(expr=s_add(w, self.expr, -1))

    def __mul__(self, o):
        if isinstance(o, DataT):
            return pointwise('mul', self, o)
        w = self._wrap(o)
        return NotImplemented if w is None else Param(expr=s_mul(self.expr, w))
    __rmul__ = __mul__

    def __truediv__(self, o):
        if isinstance(o, DataT):
            return pointwise('div', self, o)
        w = self._wrap(o)
        return NotImplemented if w is None else Param(expr=s_mul(self.expr, s_pow(w, -1)))

    def __rtruediv__(self, o):
        w = self._wrap(o)
        return NotImplemented if w is None else Param(expr=s_mul(w, s_pow(self.expr, -1)))

    def __pow__(self, n):
        if isinstance(n, (int, Fraction)) or (isinstance(n, float) and Fraction(n).denominator <= 4):
            return Param(expr=s_pow(self.expr, Fraction(n)))
        return NotImplemented

    def __neg__(self):
        return Param(expr=s_scale(self.expr, -1))

    def __bool__(self):
        raise AnalysisError('unsupported', 'control flow on the symbolic magnitude bias')

    # comparisons: decided when the sign of the difference is fixed for every positive value of the parameters
    def _cmp(self, o, test):
        w = self._wrap(o)
        if w is None:
            return NotImplemented
        d = s_add(self.expr, w, -1)
        sg = _param_sign(d)
        if sg is not None:
            return test(sg)
        if dtype_dependent(d):
            from .ops import DomainViolation
            raise DomainViolation('R-DTYPE', 'a comparison with a dtype-dependent constant (torch.finfo) decides a '
                                  'value on the data path: the float32 and the float64 computation are different '
                                  'functions of the input, not the same function up to rounding')
        raise AnalysisError('unsupported', 'comparison of symbolic parameters (%r vs %r) decides control flow'
                            % (self.expr, w))

    def __gt__(self, o):
        return self._cmp(o, lambda s: s > 0)

    def __ge__(self, o):
        return self._cmp(o, lambda s: s >= 0)

    def __lt__(self, o):
        return self._cmp(o, lambda s: s < 0)

    def __le__(self, o):
        return self._cmp(o, lambda s: s <= 0)

    def __repr__(self):
        return 'Param(%r)' % (self.expr,)


def is_param(x):
    return isinstance(x, Param)


DTYPE_CONSTANTS = ('eps[', 'tiny[', 'max[', 'min[')


def dtype_dependent(expr):
    """does the expression mention a torch.finfo(dtype) constant?"""
    return any(a.kind == 'param' and str(a.key).startswith(DTYPE_CONSTANTS) for a in expr.atoms())


def _param_sign(d):
    """+1 / 0 / -1 if the Sum d (over positive symbolic parameters only) has that sign for all parameter values"""
    if d.is_zero():
        return 0
    signs = set()
    for m, c in d.d.items():
        if any(a.kind != 'param' or str(a.key).startswith('min[') for a, e in m):
            return None
        f = float(c)
        signs.add(1 if f > 0 else -1)
    return signs.pop() if len(signs) == 1 else None


# ------------------------------------------------------------------- tensors
def _violation(op):
    from .ops import DomainViolation
    return DomainViolation('R-LIN', 'non-linear pointwise operation (%s) on a data path' % op)


def to_nl(t):
    if getattr(t, 'nl', False):
        return t
    cells = np.empty(t.cells.shape, dtype=object)
    for idx in np.ndindex(*cells.shape):
        cells[idx] = s_lin(t.cells[idx])
    r = DataT(t.dims, cells, dtype=t.dtype, origin='fresh', device=t.device)
    r.nl = True
    r.requires_grad = t.requires_grad
    r.contig = t.contig
    return r


def from_nl_if_linear(t):
    """convert back when every cell is a (scaled) linear field"""
    cells = np.empty(t.cells.shape, dtype=object)
    for idx in np.ndindex(*cells.shape):
        s = t.cells[idx]
        if s.is_zero():
            cells[idx] = ()
            continue
        one = s.single()
        if one is None:
            return t
        m, c = one
        if len(m) != 1:
            return t
        (a, e), = tuple(m)
        if a.kind != 'lin' or e != 1:
            return t
        cells[idx] = tuple(x.scaled(c) for x in a.payload)
    r = DataT(t.dims, cells, dtype=t.dtype, origin='fresh', device=t.device)
    r.requires_grad = t.requires_grad
    r.contig = t.contig
    return r


def _operand(x):
    """-> ('tensor', DataT nl) | ('scalar', Sum)"""
    if isinstance(x, DataT):
        return 'tensor', to_nl(x)
    if isinstance(x, Param):
        if HOOKS['event'] and dtype_dependent(x.expr):
            HOOKS['event']('dtype-constant-on-data-path',
                           names=sorted(str(a.key) for a in x.expr.atoms()
                                        if a.kind == 'param' and str(a.key).startswith(DTYPE_CONSTANTS)))
        return 'scalar', x.expr
    if is_const_scalar(x) or isinstance(x, Q2):
        return 'scalar', s_const(x)
    raise AnalysisError('unsupported', 'operand of type %s in a pointwise expression' % type(x).__name__)


def _binary(fn, a, b):
    ka, va = _operand(a)
    kb, vb = _operand(b)
    if ka == 'scalar' and kb == 'scalar':
        return Param(expr=fn(va, vb))
    if ka == 'tensor' and kb == 'tensor':
        dims = DataT.broadcast_pair(va, vb)
        ca = _bcast_cells(va, dims)
        cb = _bcast_cells(vb, dims)
        cells = np.empty(ca.shape, dtype=object)
        cache = {}
        for idx in np.ndindex(*cells.shape):
            k = (id(ca[idx]), id(cb[idx]))
            r = cache.get(k)
            if r is None:
                r = (fn(ca[idx], cb[idx]), ca[idx], cb[idx])
                cache[k] = r
            cells[idx] = r[0]
        ref = va
    else:
        t, s = (va, vb) if ka == 'tensor' else (vb, va)
        dims = t.dims
        cells = np.empty(t.cells.shape, dtype=object)
        cache = {}
        for idx in np.ndindex(*cells.shape):
            c = t.cells[idx]
            r = cache.get(id(c))
            if r is None:
                r = (fn(c, s) if ka == 'tensor' else fn(s, c), c)
                cache[id(c)] = r
            cells[idx] = r[0]
        ref = t
    r = DataT(dims, cells, dtype=ref.dtype, origin='fresh', device=ref.device)
    r.nl = True
    r.requires_grad = getattr(a, 'requires_grad', False) or getattr(b, 'requires_grad', False)
    return from_nl_if_linear(r)


def _bcast_cells(t, dims):
    sd = list(t.dims)
    pad = len(dims) - len(sd)
    cells = t.cells.reshape((1,) * pad + t.cells.shape)
    sd = [('E', 1)] * pad + sd
    tgt = []
    for (k, s), (tk, ts) in zip(sd, dims):
        if tk == 'E':
            tgt.append(ts)
    return np.broadcast_to(cells, tuple(tgt))


def pointwise(op, *args, **kwargs):
    if kwargs:
        args = args + tuple('%s=%r' % (k, v) for k, v in sorted(kwargs.items()))
        for v in kwargs.values():
            if isinstance(v, Param):
                _operand(v)           # records dtype-dependent constants
    for v in args[1:]:
        if isinstance(v, Param) and op not in ('add', 'sub', 'mul', 'div', 'pow'):
            _operand(v)
    if not HOOKS['allow_nl']:
        # linear contexts still need products with constants etc.; those never reach here
        raise _violation(op)
    if op == 'add':
        return _binary(lambda x, y: s_add(x, y), args[0], args[1])
    if op == 'sub':
        return _binary(lambda x, y: s_add(x, y, -1), args[0], args[1])
    if op == 'mul':
        return _binary(s_mul, args[0], args[1])
    if op == 'div':
        return _binary(lambda x, y: s_mul(x, s_pow(y, -1)), args[0], args[1])
    if op == 'neg':
        return _binary(s_mul, args[0], -1)
    if op == 'pow':
        n = args[1]
        if isinstance(n, float) and Fraction(n).denominator <= 8:
            n = Fraction(n)
        if not isinstance(n, (int, Fraction)):
            raise AnalysisError('unsupported', 'power with exponent %r' % (n,))
        return _unary(lambda x: s_pow(x, n), args[0])
    if op == 'sqrt':
        return _unary(lambda x: s_pow(x, Fraction(1, 2)), args[0])
    # anything else is outside the expression vocabulary of the scattering specification
    return _unary(lambda x: Sum({frozenset([(Atom('sum', ('op', op, x, tuple(repr(a) for a in args[1:])), x), Fraction(1))]): ONE}),
                  args[0])


def _unary(fn, a):
    k, v = _operand(a)
    if k == 'scalar':
        return Param(expr=fn(v))
    cells = np.empty(v.cells.shape, dtype=object)
    cache = {}
    for idx in np.ndindex(*cells.shape):
        c = v.cells[idx]
        r = cache.get(id(c))
        if r is None:
            r = (fn(c), c)
            cache[id(c)] = r
        cells[idx] = r[0]
    r = DataT(v.dims, cells, dtype=v.dtype, origin='fresh', device=v.device)
    r.nl = True
    r.requires_grad = getattr(a, 'requires_grad', False)
    return from_nl_if_linear(r)


def reduce(name, t, *a, **k):
    from .ops import DomainViolation
    raise DomainViolation('R-LIN', 'reduction %s() over tensor contents on a data path' % name)


REBASED = {}        # base id -> the non-linear tensor it stands for


REBASE_LOG = []     # bases in creation order (drivers reset it)


def rebase(x):
    """continue linearly over a fresh base that stands for the non-linear tensor x"""
    lin = from_nl_if_linear(x)
    if not getattr(lin, 'nl', False):
        return lin
    b = getattr(x, '_rebased', None)          # the same tensor object is re-based once
    if b is None:
        b = Base('nl%d' % len(REBASED), x.dims, dtype=x.dtype, role='rebased', defn=x)
        REBASED[b.id] = x
        REBASE_LOG.append(b)
        x._rebased = b
    t = b.tensor(origin='fresh')
    t.requires_grad = x.requires_grad
    t.base_of = None
    return t


def cat(tensors, dim):
    from . import ops
    ts = [to_nl(t) for t in tensors]
    n = ts[0].ndim
    d = dim % n
    if any(t.dims[d][0] != 'E' for t in ts):
        ts2 = [rebase(t) for t in ts]
        return ops.cat(ts2, dim)
    for i in range(n):
        if i != d and any(t.dims[i] != ts[0].dims[i] for t in ts):
            raise PyExc('RuntimeError', 'Sizes of tensors must match except in dimension %d' % d)
    ax = sum(1 for k, _ in ts[0].dims[:d] if k == 'E')
    cells = np.concatenate([t.cells for t in ts], axis=ax)
    dims = list(ts[0].dims)
    dims[d] = ('E', sum(t.dims[d][1] for t in ts))
    r = DataT(dims, cells, dtype=ts[0].dtype, origin='fresh', device=ts[0].device)
    r.nl = True
    return from_nl_if_linear(r)


def stack(tensors, dim):
    ts = [to_nl(t) for t in tensors]
    n = ts[0].ndim + 1
    d = dim % n
    ax = sum(1 for k, _ in ts[0].dims[:d] if k == 'E')
    cells = np.stack([t.cells for t in ts], axis=ax)
    dims = list(ts[0].dims)
    dims.insert(d, ('E', len(ts)))
    r = DataT(dims, cells, dtype=ts[0].dtype, origin='fresh', device=ts[0].device)
    r.nl = True
    return from_nl_if_linear(r)
