"""Pointwise non-linear expressions (scattering magnitudes).  Filled in by the scattering stage."""
from .errors import AnalysisError
from .domain import HOOKS


class Param:
    """A symbolic real parameter (the magnitude bias)."""

    def __init__(self, name, positive=False, nonneg=True):
        self.name, self.positive, self.nonneg = name, positive, nonneg

    def __repr__(self):
        return self.name


def is_param(x):
    return isinstance(x, (Param, ParamExpr))


class ParamExpr:
    def __init__(self, op, args):
        self.op, self.args = op, args


def _violation(op):
    from .ops import DomainViolation
    return DomainViolation('R-LIN', 'non-linear pointwise operation (%s) on a data path' % op)


def pointwise(op, *args):
    if not HOOKS['allow_nl']:
        raise _violation(op)
    raise AnalysisError('unsupported', 'non-linear expression engine not available for %s' % op)


def rebase(x):
    raise AnalysisError('unsupported', 'rebase of non-linear tensor')


def cat(tensors, dim):
    raise AnalysisError('unsupported', 'cat of non-linear tensors')


def stack(tensors, dim):
    raise AnalysisError('unsupported', 'stack of non-linear tensors')


def reduce(name, t, *a, **k):
    from .ops import DomainViolation
    raise DomainViolation('R-LIN', 'reduction %s() over tensor contents on a data path' % name)
