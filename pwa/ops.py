"""Transfer functions for the torch primitives on abstract data tensors.

Every function here is one row of the trusted primitive table: shape rule,
linear-operator rule (axis tables), dtype rule, aliasing rule.
"""
import itertools
import numpy as np

from .domain import (Base, DataT, Term, AxisTable, Form, ZERO_FORM, Q2, ONE, Poly, POLY_ONE, HOOKS, TorchSize,
                     is_const_scalar, canon_cell)
from .sym import Sym, factor_kernel
from .errors import AnalysisError, PyExc


class DomainViolation(Exception):
    """The analysed code leaves the linear / pure / dtype-preserving fragment."""

    def __init__(self, rule, msg):
        super().__init__('%s: %s' % (rule, msg))
        self.rule, self.msg = rule, msg


def _pair(v, name='arg'):
    if isinstance(v, (tuple, list)):
        if len(v) == 1:
            return int(v[0]), int(v[0])
        if len(v) != 2:
            raise PyExc('RuntimeError', 'expected %s to be a single int or a pair' % name)
        return int(v[0]), int(v[1])
    if isinstance(v, (int, np.integer)):
        return int(v), int(v)
    raise PyExc('TypeError', '%s must be int or tuple of ints, got %s' % (name, type(v).__name__))


# ------------------------------------------------------------------ dtypes
def promote(a, b, a_zero_dim=False, b_zero_dim=False):
    """torch.result_type for two floating tensors given as provenance tags."""
    if a == b:
        return a
    if a_zero_dim and not b_zero_dim:
        return b
    if b_zero_dim and not a_zero_dim:
        return a
    return 'promote(%s,%s)' % tuple(sorted((a, b)))


def _result_dtype(a, b):
    return promote(a.dtype, b.dtype, a.ndim == 0, b.ndim == 0)


# ------------------------------------------------------------- construction
def zeros(shape, dtype, device='dev', requires_grad=False):
    shape = [int(s) for s in shape]
    if any(s < 0 for s in shape):
        raise PyExc('RuntimeError', 'negative dimension in zeros')
    # convention: a fresh all-zero tensor has its last two dims spatial when it has >= 4 dims,
    # unless the caller re-types it (new_zeros inside c2q relies on this)
    dims = []
    n = len(shape)
    for i, s in enumerate(shape):
        dims.append(('S', s) if (n >= 4 and i >= n - 2) else ('E', s))
    cells = np.empty(tuple(s for k, s in dims if k == 'E'), dtype=object)
    for idx in np.ndindex(*cells.shape):
        cells[idx] = ()
    t = DataT(dims, cells, dtype=dtype, origin='fresh', device=device)
    t.requires_grad = bool(requires_grad)
    t.zero_const = True
    return t


def opaque(shape, dtype, role, label, device='dev', like_dims=None):
    """A tensor whose contents are not a function of the inputs: a non-zero constant fill (role 'const') or
    uninitialised memory (role 'uninit').  Modelled as one more symbolic input, so that every value that still depends
    on it when it reaches an output shows up there (as an offset / as garbage) and is reported by the comparison."""
    shape = [int(s) for s in shape]
    if like_dims is not None and [s for _, s in like_dims] == shape:
        dims = [tuple(d) for d in like_dims]
    else:
        n = len(shape)
        dims = [('S', s) if (n >= 4 and i >= n - 2) else ('E', s) for i, s in enumerate(shape)]
    b = Base(label, dims, dtype=dtype, role=role)
    t = b.tensor(origin='fresh')
    t.device = device
    t.base_of = None
    return t


def opaque_roles(t):
    """roles ('const' / 'uninit') of the opaque bases tensor t still depends on"""
    out = set()
    if not isinstance(t, DataT) or getattr(t, 'nl', False):
        return out
    for idx in np.ndindex(*t.cells.shape):
        for term in t.cells[idx]:
            if term.base.role in ('const', 'uninit'):
                out.add((term.base.role, term.base.name))
    return out


def retag_dims(t, dims):
    """Change the E/S typing of an all-zero tensor to match another tensor's dims."""
    if not t.is_zero():
        raise AnalysisError('domain', 'retag of a non-zero tensor')
    cells = np.empty(tuple(s for k, s in dims if k == 'E'), dtype=object)
    for idx in np.ndindex(*cells.shape):
        cells[idx] = ()
    r = DataT(dims, cells, dtype=t.dtype, storage=t.storage, is_view=t.is_view, device=t.device)
    r.requires_grad = t.requires_grad
    return r


# -------------------------------------------------------------- elementwise
def _align_zero(a, b):
    """If one operand is all-zero with a dims typing that differs only in E/S kinds, retag it; likewise when the
    typings differ at unit axes only."""
    if a.shape == b.shape and a.dims != b.dims:
        if a.is_zero():
            return retag_dims(a, b.dims), b
        if b.is_zero():
            return a, retag_dims(b, a.dims)
        r = b.retag_units(a.dims)
        if r is not None:
            return a, r
        r = a.retag_units(b.dims)
        if r is not None:
            return r, b
    return a, b


def add(a, b, sign=1):
    if isinstance(a, DataT) and isinstance(b, DataT):
        a.check_fresh_view()
        b.check_fresh_view()
        if getattr(a, 'nl', False) or getattr(b, 'nl', False):
            from . import nonlin
            return nonlin.pointwise('add' if sign == 1 else 'sub', a, b)
        dt = _result_dtype(a, b)
        # zero placeholders broadcast over anything
        if b.is_zero() and b.numel() <= 1 and b.ndim in (0, a.ndim):
            r = a.like(a.dims, a.cells.copy(), dtype=dt)
            r.contig = a.contig
            return r
        if a.is_zero() and a.numel() <= 1 and a.ndim in (0, b.ndim):
            cells = b.cells.copy() if sign == 1 else b.map_cells(lambda c: tuple(t.scaled(-1) for t in c))
            r = b.like(b.dims, cells, dtype=dt)
            return r
        a, b = _align_zero(a, b)
        dims = DataT.broadcast_pair(a, b)
        aa = a.broadcast_to_dims(dims)
        bb = b.broadcast_to_dims(dims)
        cells = np.empty(aa.cells.shape, dtype=object)
        for idx in np.ndindex(*cells.shape):
            tb = bb.cells[idx]
            if sign != 1:
                tb = tuple(t.scaled(-1) for t in tb)
            cells[idx] = tuple(aa.cells[idx]) + tuple(tb)
        r = a.like(dims, cells, dtype=dt)
        r.requires_grad = a.requires_grad or b.requires_grad
        r.contig = a.contig and b.contig
        return r
    t, s = (a, b) if isinstance(a, DataT) else (b, a)
    if getattr(t, 'nl', False):
        from . import nonlin
        return nonlin.pointwise('add' if sign == 1 else 'sub', a, b)
    if is_const_scalar(s) or isinstance(s, Q2):
        if Q2.of(s).is_zero():
            if t is b and sign != 1:
                return scale(t, -1)
            return t.like(t.dims, t.cells.copy())
        if t.allow_nl():
            from . import nonlin
            return nonlin.pointwise('add' if sign == 1 else 'sub', a, b)
        raise DomainViolation('R-LIN', 'a non-zero constant (%r) is added to a data tensor: the map becomes affine' % (s,))
    from . import nonlin
    if nonlin.is_param(s):
        return nonlin.pointwise('add' if sign == 1 else 'sub', a, b)
    raise AnalysisError('unsupported', 'addition of tensor and %s' % type(s).__name__)


def scale(t, c):
    t.check_fresh_view()
    c = Q2.of(c)
    r = t.like(t.dims, t.map_cells(lambda cell: tuple(x.scaled(c) for x in cell)))
    r.contig = t.contig
    return r


def neg(t):
    if getattr(t, 'nl', False):
        from . import nonlin
        return nonlin.pointwise('neg', t)
    return scale(t, -1)


def mul(a, b):
    if isinstance(a, DataT) and isinstance(b, DataT):
        if a.is_zero() or b.is_zero():
            pass
        from . import nonlin
        return nonlin.pointwise('mul', a, b)
    t, s = (a, b) if isinstance(a, DataT) else (b, a)
    if getattr(t, 'nl', False):
        from . import nonlin
        return nonlin.pointwise('mul', a, b)
    if is_const_scalar(s) or isinstance(s, Q2):
        return scale(t, s)
    from . import nonlin
    if nonlin.is_param(s):
        return nonlin.pointwise('mul', a, b)
    if isinstance(s, Sym):
        raise DomainViolation('R-LIN', 'data tensor multiplied elementwise by a filter tensor')
    raise AnalysisError('unsupported', 'product of tensor and %s' % type(s).__name__)


def div(a, b):
    if isinstance(a, DataT) and not isinstance(b, DataT):
        if getattr(a, 'nl', False):
            from . import nonlin
            return nonlin.pointwise('div', a, b)
        if is_const_scalar(b) or isinstance(b, Q2):
            return scale(a, Q2.of(b).inv())
        from . import nonlin
        if nonlin.is_param(b):
            return nonlin.pointwise('div', a, b)
        raise AnalysisError('unsupported', 'tensor divided by %s' % type(b).__name__)
    from . import nonlin
    return nonlin.pointwise('div', a, b)


# ------------------------------------------------------------------ joining
def _norm_dim(d, n):
    if d < -n or d >= n:
        raise PyExc('IndexError', 'Dimension out of range (expected to be in range of [%d, %d], but got %d)'
                    % (-n, n - 1, d))
    return d % n


def _e_axis(dims, d):
    return sum(1 for k, _ in dims[:d] if k == 'E')


def _s_axis(dims, d):
    return sum(1 for k, _ in dims[:d] if k == 'S')


def cat(tensors, dim=0):
    tensors = list(tensors)
    if not tensors:
        raise PyExc('RuntimeError', 'torch.cat(): expected a non-empty list of Tensors')
    for t in tensors:
        if not isinstance(t, DataT):
            raise AnalysisError('unsupported', 'cat of %s' % type(t).__name__)
        t.check_fresh_view()
    if any(getattr(t, 'nl', False) for t in tensors):
        from . import nonlin
        return nonlin.cat(tensors, dim)
    n = tensors[0].ndim
    if any(t.ndim != n for t in tensors):
        raise PyExc('RuntimeError', 'Tensors must have same number of dimensions: got %s'
                    % [t.ndim for t in tensors])
    d = _norm_dim(dim, n)
    ref = tensors[0]
    # dims typing: follow the first non-zero tensor
    for t in tensors:
        if not t.is_zero():
            ref = t
            break
    ts = []
    for t in tensors:
        if t.dims != ref.dims and t.is_zero() and [s for _, s in t.dims] != []:
            dd = [(rk, s) for (rk, _), (_, s) in zip(ref.dims, t.dims)]
            t = retag_dims(t, dd)
        ts.append(t)
    ts2 = []
    for t in ts:
        if t.dims != ref.dims and all(a[1] == b[1] for i, (a, b) in enumerate(zip(t.dims, ref.dims)) if i != d):
            tgt = [(rk, s) for (rk, _), (_, s) in zip(ref.dims, t.dims)]
            r = t.retag_units(tgt)
            if r is not None:
                t = r
        ts2.append(t)
    ts = ts2
    for i in range(n):
        if i == d:
            continue
        for t in ts:
            if t.dims[i][1] != ref.dims[i][1]:
                raise PyExc('RuntimeError', 'Sizes of tensors must match except in dimension %d. '
                            'Expected size %s but got size %s' % (d, ref.dims[i][1], t.dims[i][1]))
            if t.dims[i] != ref.dims[i]:
                raise AnalysisError('unsupported', 'cat of tensors whose enumerated / spatial typing differs '
                                    '(%s vs %s)' % (t.dims, ref.dims))
    kind = ref.dims[d][0]
    if any(t.dims[d][0] != kind for t in ts):
        raise AnalysisError('unsupported', 'cat mixes spatial and enumerated dims')
    total = sum(t.dims[d][1] for t in ts)
    dims = list(ref.dims)
    dims[d] = (kind, total)
    dt = ts[0].dtype
    for t in ts[1:]:
        dt = promote(dt, t.dtype)
    if kind == 'E':
        ax = _e_axis(ref.dims, d)
        cells = np.concatenate([t.cells for t in ts], axis=ax)
    else:
        sp = _s_axis(ref.dims, d)
        cells = np.empty(ref.cells.shape, dtype=object)
        offs = []
        o = 0
        for t in ts:
            offs.append(o)
            o += t.dims[d][1]
        for idx in np.ndindex(*cells.shape):
            out = []
            for t, off in zip(ts, offs):
                ln = t.dims[d][1]
                for term in t.cells[idx]:
                    tb = term.tables[sp]
                    forms = [ZERO_FORM] * off + list(tb.forms) + [ZERO_FORM] * (total - off - ln)
                    out.append(term.with_table(sp, AxisTable(tb.base_axis, forms)))
            cells[idx] = _merge(out)
    r = ref.like(dims, cells, dtype=dt)
    r.requires_grad = any(t.requires_grad for t in ts)
    r.contig = True
    return r


def _merge(terms):
    """cheap canonical merge: add tables of terms that agree on everything but one axis"""
    terms = [t for t in terms if not t.is_zero()]
    if len(terms) < 2:
        return tuple(terms)
    n_ax = len(terms[0].tables)
    changed = True
    while changed and len(terms) > 1:
        changed = False
        for ax in range(n_ax):
            groups = {}
            order = []
            for t in terms:
                k = (t.base.id, t.bchan, t.coef, tuple(tb for i, tb in enumerate(t.tables) if i != ax))
                if k not in groups:
                    groups[k] = []
                    order.append(k)
                groups[k].append(t)
            if len(order) < len(terms):
                new = []
                for k in order:
                    g = groups[k]
                    if len(g) == 1:
                        new.append(g[0])
                        continue
                    tab = g[0].tables[ax]
                    for t in g[1:]:
                        tab = tab.add(t.tables[ax])
                    m = g[0].with_table(ax, tab)
                    if not m.is_zero():
                        new.append(m)
                terms = new
                changed = True
                break
    return tuple(terms)


def stack(tensors, dim=0):
    tensors = list(tensors)
    for t in tensors:
        if not isinstance(t, DataT):
            raise AnalysisError('unsupported', 'stack of %s' % type(t).__name__)
        t.check_fresh_view()
    if any(getattr(t, 'nl', False) for t in tensors):
        from . import nonlin
        return nonlin.stack(tensors, dim)
    ref = tensors[0]
    n = ref.ndim + 1
    d = _norm_dim(dim, n)
    for t in tensors[1:]:
        if t.shape != ref.shape:
            raise PyExc('RuntimeError', 'stack expects each tensor to be equal size, but got %s and %s'
                        % (list(ref.shape), list(t.shape)))
    ts = [ref]
    for t in tensors[1:]:
        if t.dims != ref.dims:
            r = retag_dims(t, ref.dims) if t.is_zero() else t.retag_units(ref.dims)
            if r is None:
                raise AnalysisError('unsupported', 'stack of tensors with different dim typing')
            t = r
        ts.append(t)
    tensors = ts
    ax = _e_axis(ref.dims, d)
    cells = np.stack([t.cells for t in tensors], axis=ax)
    dims = list(ref.dims)
    dims.insert(d, ('E', len(tensors)))
    dt = ref.dtype
    for t in tensors[1:]:
        dt = promote(dt, t.dtype)
    r = ref.like(dims, cells, dtype=dt)
    r.requires_grad = any(t.requires_grad for t in tensors)
    r.contig = True
    return r


def unbind(t, dim=0):
    t.check_fresh_view()
    d = _norm_dim(dim, t.ndim)
    if t.dims[d][0] != 'E':
        raise AnalysisError('unsupported', 'unbind along a spatial axis')
    out = []
    for i in range(t.dims[d][1]):
        idx = [slice(None)] * t.ndim
        idx[d] = i
        out.append(t[tuple(idx)])
    return tuple(out)


def index_select(t, dim, index):
    if not isinstance(t, DataT):
        raise PyExc('TypeError', 'index_select(): argument input must be Tensor, not %s' % type(t).__name__)
    d = _norm_dim(dim, t.ndim)
    arr = index.as_index() if hasattr(index, 'as_index') else np.asarray(index)
    idx = [slice(None)] * t.ndim
    idx[d] = arr
    return t[tuple(idx)]


def permute(t, order):
    t.check_fresh_view()
    order = [_norm_dim(o, t.ndim) for o in order]
    if sorted(order) != list(range(t.ndim)):
        raise PyExc('RuntimeError', 'permute: repeated dim')
    e_old = t.e_axes()
    s_old = t.s_axes()
    e_perm = [e_old.index(o) for o in order if t.dims[o][0] == 'E']
    s_perm = [s_old.index(o) for o in order if t.dims[o][0] == 'S']
    cells = np.transpose(t.cells, e_perm) if e_perm else t.cells
    if s_perm != sorted(s_perm):
        cells2 = np.empty(cells.shape, dtype=object)
        for idx in np.ndindex(*cells.shape):
            cells2[idx] = tuple(Term(x.base, x.bchan, [x.tables[i] for i in s_perm], x.coef) for x in cells[idx])
        cells = cells2
    else:
        cells = cells.copy()
    r = t.like([t.dims[o] for o in order], cells, view=True)
    r.contig = False
    return normalise_units(r)


def transpose(t, d0, d1):
    order = list(range(t.ndim))
    d0, d1 = _norm_dim(d0, t.ndim), _norm_dim(d1, t.ndim)
    order[d0], order[d1] = order[d1], order[d0]
    return permute(t, order)


def as_nchw(x):
    """a 4-D tensor whose typing differs from (N, C, H, W) at unit axes only is re-typed (see DataT.retag_units)"""
    if isinstance(x, DataT) and x.ndim == 4 and [k for k, _ in x.dims] != ['E', 'E', 'S', 'S']:
        r = x.retag_units([('E', x.dims[0][1]), ('E', x.dims[1][1]), ('S', x.dims[2][1]), ('S', x.dims[3][1])])
        if r is not None:
            return r
    return x


def normalise_units(t):
    """normal form of the typing of unit axes: a unit spatial axis directly before a unit enumerated axis trades
    places with it (pure relabelling, see DataT.retag_units), so that (N, C, 1, 1, W)-like results of unflatten /
    unsqueeze / movedim chains come out typed the same way whichever route produced them"""
    dims = [tuple(d) for d in t.dims]
    changed = False
    moved = True
    while moved:
        moved = False
        for i in range(len(dims) - 1):
            if dims[i] == ('S', 1) and dims[i + 1] == ('E', 1):
                dims[i], dims[i + 1] = dims[i + 1], dims[i]
                moved = changed = True
    if not changed:
        return t
    r = t.retag_units(dims)
    return r if r is not None else t


def reshape(t, shape, is_view=False):
    return as_nchw(normalise_units(_reshape(t, shape, is_view)))


def _reshape(t, shape, is_view=False):
    t.check_fresh_view()
    if getattr(t, 'nl', False):
        from . import nonlin
        lin = DataT(t.dims, np.empty(t.cells.shape, dtype=object), dtype=t.dtype, device=t.device)
        # regroup the enumerated dims only: run the linear reshape on an index tensor and permute the cells with it
        idx_cells = np.empty(t.cells.shape, dtype=object)
        for i in np.ndindex(*t.cells.shape):
            idx_cells[i] = ()
        probe = DataT(t.dims, idx_cells, dtype=t.dtype, device=t.device)
        r = reshape(probe, shape, is_view)
        if [d for d in r.dims if d[0] == 'S'] != [d for d in t.dims if d[0] == 'S']:
            return reshape(nonlin.rebase(t), shape, is_view)
        out = DataT(r.dims, t.cells.reshape(r.cells.shape).copy(), dtype=t.dtype, device=t.device)
        out.nl = True
        out.contig = t.contig
        return out
    shape = list(shape)
    if len(shape) == 1 and isinstance(shape[0], (tuple, list)):
        shape = list(shape[0])
    shape = [int(s) for s in shape]
    total = t.numel()
    if shape.count(-1) > 1:
        raise PyExc('RuntimeError', 'only one dimension can be inferred')
    if -1 in shape:
        known = 1
        for s in shape:
            if s != -1:
                known *= s
        if known == 0 or total % known:
            raise PyExc('RuntimeError', "shape '%s' is invalid for input of size %d" % (shape, total))
        shape[shape.index(-1)] = total // known
    prod = 1
    for s in shape:
        prod *= s
    if prod != total:
        raise PyExc('RuntimeError', "shape '%s' is invalid for input of size %d" % (shape, total))
    if is_view and not t.contig:
        if HOOKS['event']:
            HOOKS['event']('view-on-noncontiguous', shape=list(t.shape), new=shape)
    old = list(t.dims)
    # common prefix
    p = 0
    while p < len(old) and p < len(shape) and old[p][1] == shape[p]:
        p += 1
    max_suf = 0
    while max_suf < len(old) - p and max_suf < len(shape) - p and old[len(old) - 1 - max_suf][1] == shape[len(shape) - 1 - max_suf]:
        max_suf += 1
    last_err = None
    for pre in range(p, -1, -1):
        for suf in range(min(max_suf, len(old) - pre, len(shape) - pre), -1, -1):
            try:
                return _reshape_with(t, old, shape, pre, suf)
            except _ReshapeFail as e:
                last_err = e
    raise AnalysisError('unsupported', 'reshape %s -> %s: %s' % ([tuple(d) for d in old], shape, last_err))


class _ReshapeFail(Exception):
    pass


def _reshape_with(t, old, shape, pre, suf):
    mid_old = list(range(pre, len(old) - suf))
    mid_new = list(range(pre, len(shape) - suf))
    # group the middle by equal products (standard reshape grouping)
    groups = []
    i = j = 0
    while i < len(mid_old) or j < len(mid_new):
        go, gn = [], []
        po = pn = 1
        if i < len(mid_old):
            go.append(mid_old[i]); po *= old[mid_old[i]][1]; i += 1
        if j < len(mid_new):
            gn.append(mid_new[j]); pn *= shape[mid_new[j]]; j += 1
        while po != pn:
            if po < pn:
                if i >= len(mid_old):
                    raise _ReshapeFail('product mismatch')
                go.append(mid_old[i]); po *= old[mid_old[i]][1]; i += 1
            else:
                if j >= len(mid_new):
                    raise _ReshapeFail('product mismatch')
                gn.append(mid_new[j]); pn *= shape[mid_new[j]]; j += 1
        groups.append((go, gn))
    new_dims = [None] * len(shape)
    for k in range(pre):
        new_dims[k] = old[k]
    for k in range(suf):
        new_dims[len(shape) - 1 - k] = old[len(old) - 1 - k]
    merges = []            # (old index of E dim, old index of S dim, mode)
    for go, gn in groups:
        kinds = [old[o][0] for o in go]
        if 'S' not in kinds:
            for g in gn:
                new_dims[g] = ('E', shape[g])
            continue
        if kinds.count('S') != 1:
            raise _ReshapeFail('two spatial axes in one reshape group')
        non_unit_new = [g for g in gn if shape[g] != 1]
        if len(non_unit_new) > 1:
            raise _ReshapeFail('splitting a spatial axis')
        if not gn:
            raise _ReshapeFail('spatial axis dropped')
        sidx = kinds.index('S')
        before = [o for o in go[:sidx] if old[o][1] != 1]
        after = [o for o in go[sidx + 1:] if old[o][1] != 1]
        if (before and after) or len(before) > 1 or len(after) > 1:
            raise _ReshapeFail('spatial axis merged with several dims')
        s_old = go[sidx]
        n = old[s_old][1]
        tgt = non_unit_new[0] if non_unit_new else gn[-1]
        k = 1
        if before:
            k = old[before[0]][1]
            merges.append((before[0], s_old, 'concat'))
        elif after:
            k = old[after[0]][1]
            merges.append((after[0], s_old, 'interleave'))
        new_dims[tgt] = ('S', n * k)
        for g in gn:
            if g != tgt:
                new_dims[g] = ('E', 1)
    if any(d is None for d in new_dims):
        raise _ReshapeFail('internal: unassigned dim')
    if [s for _, s in new_dims] != list(shape):
        raise _ReshapeFail('internal: shape mismatch')
    # an enumerated-only group must not straddle a spatial dim (it would reorder memory)
    for go, gn in groups:
        if go and all(old[o][0] == 'E' for o in go):
            if any(old[q][0] == 'S' for q in range(min(go), max(go) + 1)):
                raise _ReshapeFail('enumerated group straddles a spatial axis')
    cells = t.cells
    alive = [q for q in range(len(old)) if old[q][0] == 'E']      # old indices of the axes of `cells`
    for e_old, s_old, mode in merges:
        e_ax = alive.index(e_old)
        sp = _s_axis(old, s_old)
        cells = _merge_e_into_s(cells, e_ax, sp, old[s_old][1], old[e_old][1], mode)
        alive.remove(e_old)
    try:
        cells = cells.reshape(tuple(s for k, s in new_dims if k == 'E'))
    except ValueError:
        raise _ReshapeFail('cells reshape')
    r = t.like(new_dims, cells.copy(), view=True)
    r.contig = t.contig
    return r


def _merge_e_into_s(cells, e_ax, sp, n, k, mode):
    """Remove enumerated axis e_ax (size k) by merging it into spatial axis sp (size n)."""
    moved = np.moveaxis(cells, e_ax, -1)
    out = np.empty(moved.shape[:-1], dtype=object)
    for idx in np.ndindex(*out.shape):
        terms = []
        for p in range(k):
            for term in moved[idx + (p,)]:
                tb = term.tables[sp]
                forms = [ZERO_FORM] * (n * k)
                for i, f in enumerate(tb.forms):
                    pos = i * k + p if mode == 'interleave' else p * n + i
                    forms[pos] = f
                terms.append(term.with_table(sp, AxisTable(tb.base_axis, forms)))
        out[idx] = _merge(terms)
    return out


# -------------------------------------------------------------- convolution
def _spatial_slot(t, d):
    kind, size = t.dims[d]
    if kind == 'S':
        return 'S'
    if size == 1:
        return 'U'
    raise AnalysisError('unsupported', 'dim %d of a conv input is an enumerated dim of size %d' % (d, size))


def _check_conv_input(x, w, what):
    if not isinstance(x, DataT):
        raise AnalysisError('unsupported', '%s input is %s' % (what, type(x).__name__))
    if getattr(x, 'nl', False):
        from . import nonlin
        x = nonlin.rebase(x)
    if not isinstance(w, Sym):
        if isinstance(w, DataT):
            raise DomainViolation('R-LIN', '%s weight is a data tensor' % what)
        raise AnalysisError('unsupported', '%s weight is %s' % (what, type(w).__name__))
    if x.ndim != 4:
        raise PyExc('RuntimeError', 'Expected 3D (unbatched) or 4D (batched) input to %s, but got input of size: %s'
                    % (what, list(x.shape)))
    if w.arr.ndim != 4:
        raise PyExc('RuntimeError', 'weight should have 4 dimensions, got %s' % list(w.shape))
    if 0 in w.arr.shape:
        raise PyExc('RuntimeError', 'weight of size %s: a zero-sized kernel / channel dimension is not supported'
                    % list(w.arr.shape))
    if [k for k, _ in x.dims] != ['E', 'E', 'S', 'S']:
        r = x.retag_units([('E', x.dims[0][1]), ('E', x.dims[1][1]), ('S', x.dims[2][1]), ('S', x.dims[3][1])])
        if r is not None:
            x = r
    if x.dims[0][0] != 'E' or x.dims[1][0] != 'E':
        raise AnalysisError('unsupported', 'batch/channel dims of a conv input are spatial')
    x.check_fresh_view()
    if HOOKS['event']:
        HOOKS['event']('conv-dtypes', data=x.dtype, weight=w.dtype)
    return x


def conv2d(x, w, bias=None, stride=1, padding=0, dilation=1, groups=1):
    x = _check_conv_input(x, w, 'conv2d')
    if bias is not None:
        raise DomainViolation('R-LIN', 'conv2d with a bias')
    sh, sw = _pair(stride, 'stride')
    if isinstance(padding, str):
        raise AnalysisError('unsupported', 'string padding')
    ph, pw = _pair(padding, 'padding')
    dh, dw = _pair(dilation, 'dilation')
    if sh <= 0 or sw <= 0:
        raise PyExc('RuntimeError', 'non-positive stride is not supported')
    if dh <= 0 or dw <= 0:
        raise PyExc('RuntimeError', 'dilation should be greater than zero')
    if ph < 0 or pw < 0:
        raise PyExc('RuntimeError', 'negative padding is not supported')
    N, C = x.dims[0][1], x.dims[1][1]
    O, Ipg, kh, kw = w.arr.shape
    if not isinstance(groups, (int, np.integer)) or groups <= 0:
        raise PyExc('RuntimeError', 'non-positive groups is not supported')
    if C % groups or O % groups:
        raise PyExc('RuntimeError', 'channels not divisible by groups')
    if C // groups != Ipg:
        raise PyExc('RuntimeError', 'Given groups=%d, weight of size %s, expected input%s to have %d channels, '
                    'but got %d channels instead' % (groups, list(w.arr.shape), list(x.shape), Ipg * groups, C))
    Opg = O // groups
    slots = [_spatial_slot(x, 2), _spatial_slot(x, 3)]
    for slot, k, p, name in ((slots[0], kh, ph, 'H'), (slots[1], kw, pw, 'W')):
        if slot == 'U' and (k != 1 or p != 0):
            if 1 + 2 * p < k:
                raise PyExc('RuntimeError', 'Kernel size can\'t be greater than actual input size')
            raise AnalysisError('unsupported', 'non-trivial kernel along a unit enumerated dim')
    x3 = x.cells.reshape((N, C) + (() if True else ()))  # E dims: n, c, (unit dims)
    x3 = x.cells.reshape(N, C)
    kcache = {}
    tcache = {}

    def kernel(o, il):
        key = (o, il)
        r = kcache.get(key)
        if r is None:
            u, v = factor_kernel(w.arr[o, il])
            r = (tuple(u), tuple(v))
            kcache[key] = r
        return r

    def conv_tab(tb, wts, s, d, p):
        key = (id(tb), wts, s, d, p)
        r = tcache.get(key)
        if r is None:
            r = (tb.conv(wts, s, d, (p, p)), tb)
            tcache[key] = r
        return r[0]

    out = np.empty((N, O), dtype=object)
    out_h = out_w = None
    for n in range(N):
        for o in range(O):
            g = o // Opg
            terms = []
            for il in range(Ipg):
                u, v = kernel(o, il)
                for term in x3[n, g * Ipg + il]:
                    tabs = list(term.tables)
                    si = 0
                    if slots[0] == 'S':
                        tabs[si] = conv_tab(tabs[si], u, sh, dh, ph)
                        si += 1
                    elif u != (POLY_ONE,):
                        term = _scale_poly(term, u[0])
                    if slots[1] == 'S':
                        tabs[si] = conv_tab(tabs[si], v, sw, dw, pw)
                    elif v != (POLY_ONE,):
                        term = _scale_poly(term, v[0])
                    terms.append(Term(term.base, term.bchan, tabs, term.coef))
            out[n, o] = _merge(terms)
    dims = [('E', N), ('E', O)]
    for slot, d, k, s, p, dl in ((slots[0], 2, kh, sh, ph, dh), (slots[1], 3, kw, sw, pw, dw)):
        size = x.dims[d][1]
        total = size + 2 * p
        span = dl * (k - 1) + 1
        if total < span:
            raise PyExc('RuntimeError', 'Calculated padded input size per channel: (%d). Kernel size: (%d). '
                        'Kernel size can\'t be greater than actual input size' % (total, span))
        osz = (total - span) // s + 1
        dims.append(('S', osz) if slot == 'S' else ('E', osz))
    if slots[0] == 'U' or slots[1] == 'U':
        e_shape = tuple(s for k, s in dims if k == 'E')
        out = out.reshape(e_shape)
    r = DataT(dims, out, dtype=x.dtype, origin='fresh', device=x.device)
    r.requires_grad = x.requires_grad
    return r


def _scale_poly(term, p):
    """multiply a term by a tap polynomial along a unit axis: fold into the first table"""
    if not term.tables:
        raise AnalysisError('unsupported', 'tap polynomial on a term without spatial axes')
    tb = term.tables[0]
    forms = []
    from .domain import form_add_into
    for f in tb.forms:
        d = {}
        form_add_into(d, f, p)
        forms.append(Form(d))
    return term.with_table(0, AxisTable(tb.base_axis, forms))


def conv_transpose2d(x, w, bias=None, stride=1, padding=0, output_padding=0, groups=1, dilation=1):
    x = _check_conv_input(x, w, 'conv_transpose2d')
    if bias is not None:
        raise DomainViolation('R-LIN', 'conv_transpose2d with a bias')
    sh, sw = _pair(stride, 'stride')
    ph, pw = _pair(padding, 'padding')
    oph, opw = _pair(output_padding, 'output_padding')
    dh, dw = _pair(dilation, 'dilation')
    if sh <= 0 or sw <= 0:
        raise PyExc('RuntimeError', 'non-positive stride is not supported')
    if dh <= 0 or dw <= 0:
        raise PyExc('RuntimeError', 'dilation should be greater than zero')
    if ph < 0 or pw < 0 or oph < 0 or opw < 0:
        raise PyExc('RuntimeError', 'negative padding is not supported')
    if oph >= max(sh, dh) or opw >= max(sw, dw):
        raise PyExc('RuntimeError', 'output padding must be smaller than either stride or dilation')
    N, C = x.dims[0][1], x.dims[1][1]
    Cin, Opg, kh, kw = w.arr.shape
    if Cin != C:
        raise PyExc('RuntimeError', 'Given transposed=1, weight of size %s, expected input%s to have %d channels, '
                    'but got %d channels instead' % (list(w.arr.shape), list(x.shape), Cin, C))
    if C % groups:
        raise PyExc('RuntimeError', 'channels not divisible by groups')
    Ipg = C // groups
    O = Opg * groups
    slots = [_spatial_slot(x, 2), _spatial_slot(x, 3)]
    x3 = x.cells.reshape(N, C)
    tcache = {}
    kcache = {}

    def kernel(i, oc):
        r = kcache.get((i, oc))
        if r is None:
            u, v = factor_kernel(w.arr[i, oc])
            r = (tuple(u), tuple(v))
            kcache[(i, oc)] = r
        return r

    def ct(tb, wts, s, p, op, d):
        key = (id(tb), wts, s, p, op, d)
        r = tcache.get(key)
        if r is None:
            r = (tb.conv_transpose(wts, s, p, op, d), tb)
            tcache[key] = r
        return r[0]

    out = np.empty((N, O), dtype=object)
    for n in range(N):
        for o in range(O):
            g, oc = divmod(o, Opg)
            terms = []
            for il in range(Ipg):
                i = g * Ipg + il
                u, v = kernel(i, oc)
                for term in x3[n, i]:
                    tabs = list(term.tables)
                    si = 0
                    if slots[0] == 'S':
                        tabs[si] = ct(tabs[si], u, sh, ph, oph, dh)
                        si += 1
                    elif len(u) != 1:
                        raise AnalysisError('unsupported', 'transposed kernel along a unit dim')
                    elif u != (POLY_ONE,):
                        term = _scale_poly(term, u[0])
                    if slots[1] == 'S':
                        tabs[si] = ct(tabs[si], v, sw, pw, opw, dw)
                    elif len(v) != 1:
                        raise AnalysisError('unsupported', 'transposed kernel along a unit dim')
                    elif v != (POLY_ONE,):
                        term = _scale_poly(term, v[0])
                    terms.append(Term(term.base, term.bchan, tabs, term.coef))
            out[n, o] = _merge(terms)
    dims = [('E', N), ('E', O)]
    for slot, d, k, s, p, op, dl in ((slots[0], 2, kh, sh, ph, oph, dh), (slots[1], 3, kw, sw, pw, opw, dw)):
        size = x.dims[d][1]
        osz = (size - 1) * s - 2 * p + dl * (k - 1) + op + 1
        if osz <= 0:
            raise PyExc('RuntimeError', 'conv_transpose2d: non-positive output size')
        dims.append(('S', osz) if slot == 'S' else ('E', osz))
    if slots[0] == 'U' or slots[1] == 'U':
        if any(k == 'E' and s != 1 for k, s in dims[2:]):
            raise AnalysisError('unsupported', 'transposed conv grows a unit dim')
        out = out.reshape(tuple(s for k, s in dims if k == 'E'))
    r = DataT(dims, out, dtype=x.dtype, origin='fresh', device=x.device)
    r.requires_grad = x.requires_grad
    return r


# ------------------------------------------------------------------ padding
def pad(x, padding, mode='constant', value=None):
    x = as_nchw(x)
    if not isinstance(x, DataT):
        raise PyExc('TypeError', 'pad(): argument input must be Tensor, not %s' % type(x).__name__)
    if not isinstance(x, DataT):
        raise AnalysisError('unsupported', 'F.pad of %s' % type(x).__name__)
    x.check_fresh_view()
    padding = [int(p) for p in padding]
    if len(padding) % 2 or len(padding) > 2 * x.ndim:
        raise PyExc('RuntimeError', 'Padding length must be divisible by 2 and at most twice the number of dims')
    if mode == 'constant' and value is not None and not (is_const_scalar(value) and Q2.of(value).is_zero()):
        raise DomainViolation('R-LIN', 'F.pad with a non-zero fill value (%r): the map becomes affine' % (value,))
    if mode != 'constant' and value is not None and not (is_const_scalar(value) and Q2.of(value).is_zero()):
        raise PyExc('ValueError', 'Padding mode "%s" doesn\'t take in value argument' % mode)
    if mode not in ('constant', 'reflect', 'replicate', 'circular'):
        raise PyExc('NotImplementedError', 'Unrecognised padding mode %s' % mode)
    if mode != 'constant' and len(padding) // 2 > x.ndim - 2 + (1 if x.ndim == 3 else 0) and x.ndim <= 4:
        if len(padding) // 2 > x.ndim - 1:
            raise PyExc('NotImplementedError', 'Only 2D, 3D, 4D, 5D padding with non-constant padding are supported')
    res = x
    for i in range(len(padding) // 2):
        l, r = padding[2 * i], padding[2 * i + 1]
        if l == 0 and r == 0:
            continue
        d = x.ndim - 1 - i
        kind, size = res.dims[d]
        if kind != 'S':
            raise AnalysisError('unsupported', 'padding an enumerated dim')
        if l < 0 or r < 0:
            if size + l + r <= 0:
                raise PyExc('RuntimeError', 'negative padding removes the whole axis')
            idxs_core = list(range(size))[max(0, -l): size - max(0, -r)]
        else:
            idxs_core = list(range(size))
        lp, rp = max(l, 0), max(r, 0)
        if mode == 'constant':
            idxs = [None] * lp + idxs_core + [None] * rp
        elif mode == 'reflect':
            if lp >= size or rp >= size:
                raise PyExc('RuntimeError', 'Argument #4: Padding size should be less than the corresponding input '
                            'dimension, but got: padding (%d, %d) at dimension %d of input %s' % (l, r, d, list(x.shape)))
            idxs = [lp - j for j in range(lp)] + idxs_core + [size - 2 - j for j in range(rp)]
        elif mode == 'replicate':
            idxs = [0] * lp + idxs_core + [size - 1] * rp
        else:
            if lp > size or rp > size:
                raise PyExc('RuntimeError', 'Padding value causes wrapping around more than once.')
            idxs = [(j - lp) % size for j in range(lp)] + idxs_core + [j % size for j in range(rp)]
        res = gather_axis(res, d, idxs)
    if res is x:
        res = x.like(x.dims, x.cells.copy())
    res.contig = True
    return res


def gather_axis(x, d, idxs):
    sp = _s_axis(x.dims, d)
    cache = {}

    def fix(cell):
        out = []
        for t in cell:
            tb = t.tables[sp]
            g = cache.get(id(tb))
            if g is None:
                g = (tb.gather(idxs), tb)
                cache[id(tb)] = g
            out.append(t.with_table(sp, g[0]))
        return tuple(out)
    dims = list(x.dims)
    dims[d] = ('S', len(idxs))
    r = x.like(dims, x.map_cells(fix))
    return r


def avg_pool2d(x, kernel_size, stride=None, padding=0, ceil_mode=False, count_include_pad=True):
    x = as_nchw(x)
    if not isinstance(x, DataT):
        raise PyExc('TypeError', 'avg_pool2d(): argument input must be Tensor, not %s' % type(x).__name__)
    if getattr(x, 'nl', False):
        from . import nonlin
        x = nonlin.rebase(x)
    x.check_fresh_view()
    kh, kw = _pair(kernel_size, 'kernel_size')
    sh, sw = _pair(stride if stride is not None else kernel_size, 'stride')
    ph, pw = _pair(padding, 'padding')
    if ceil_mode or ph or pw:
        raise AnalysisError('unsupported', 'avg_pool2d with padding / ceil_mode')
    if x.ndim < 3 or x.dims[-1][0] != 'S' or x.dims[-2][0] != 'S':
        raise AnalysisError('unsupported', 'avg_pool2d on a tensor whose last two dims are not spatial')
    res = x
    for d, k, s in ((x.ndim - 2, kh, sh), (x.ndim - 1, kw, sw)):
        sp = _s_axis(res.dims, d)
        wts = tuple(Poly.const(Q2(1) / k) for _ in range(k))
        cache = {}

        def fix(cell, sp=sp, wts=wts, s=s, cache=cache):
            out = []
            for t in cell:
                tb = t.tables[sp]
                g = cache.get(id(tb))
                if g is None:
                    g = (tb.conv(wts, s, 1, (0, 0)), tb)
                    cache[id(tb)] = g
                out.append(t.with_table(sp, g[0]))
            return tuple(out)
        size = res.dims[d][1]
        if size < k:
            raise PyExc('RuntimeError', 'avg_pool2d: output size is too small')
        dims = list(res.dims)
        dims[d] = ('S', (size - k) // s + 1)
        res = res.like(dims, res.map_cells(fix))
    res.contig = True
    return res


def interpolate(x, size=None, scale_factor=None, mode='nearest', align_corners=None):
    x = as_nchw(x)
    if not isinstance(x, DataT):
        raise PyExc('TypeError', 'interpolate(): argument input must be Tensor, not %s' % type(x).__name__)
    if getattr(x, 'nl', False):
        from . import nonlin
        x = nonlin.rebase(x)
    x.check_fresh_view()
    if size is not None or scale_factor is None:
        raise AnalysisError('unsupported', 'interpolate with explicit size')
    if mode != 'nearest':
        raise AnalysisError('unsupported', 'interpolate mode %r (only nearest is in the primitive table)' % (mode,))
    if x.ndim != 4:
        raise AnalysisError('unsupported', 'interpolate on %d-D input' % x.ndim)
    fh, fw = (scale_factor, scale_factor) if not isinstance(scale_factor, (tuple, list)) else scale_factor
    res = x
    for d, f in ((2, fh), (3, fw)):
        if int(f) != f or f < 1:
            raise AnalysisError('unsupported', 'non-integer scale factor')
        f = int(f)
        if res.dims[d][0] != 'S':
            raise AnalysisError('unsupported', 'interpolate over an enumerated dim')
        n = res.dims[d][1]
        res = gather_axis(res, d, [k // f for k in range(n * f)])
    res.contig = True
    return res
