"""Fan a list of configurations out over worker processes; each worker keeps one Session per repo."""
import multiprocessing as mp
import os
import traceback

from .errors import AnalysisError, PyExc

_SESSIONS = {}


def session(repo):
    from .harness import Session
    s = _SESSIONS.get(repo)
    if s is None:
        s = Session(repo)
        _SESSIONS[repo] = s
    return s


FUNCS = {}          # qualified function name -> number of abstract calls, accumulated over one check run


def _work(args):
    fn, repo, item = args
    try:
        S = session(repo)
        before = dict(S.interp.call_counts)
        r = fn(S, item)
        after = S.interp.call_counts
        delta = {k: v - before.get(k, 0) for k, v in after.items() if v != before.get(k, 0)}
        if isinstance(r, dict):
            for f in r.get('findings', ()):
                if isinstance(f, dict) and not f.get('call_path'):
                    # the repository functions interpreted for this configuration (the path the report is about)
                    f['call_path'] = sorted(k.replace('pytorch_wavelets.', '') for k in delta)
        return ('ok', (r, delta))
    except PyExc as e:
        # the analysed program raises outside the calls the driver guards (a constructor, a preparation helper):
        # for a configuration of the grid that is a violation in its own right
        loc = getattr(e, 'loc', None)
        where = getattr(loc, 'func', None) or fn.__name__
        f = {'rule': 'RAISES', 'construct': str(where), 'discriminator': 'setup-raises-%s' % e.name,
             'msg': 'setting up configuration %r raises %s: %s' % (item, e.name, str(e.msg)[:160]),
             'severity': 'violation', 'file': getattr(loc, 'file', None), 'line': getattr(loc, 'line', None),
             'function': getattr(loc, 'func', None), 'statement': getattr(loc, 'text', None), 'call_path': [],
             'detail': {'config': repr(item)}}
        return ('ok', ({'cmp': 1, 'diff': 1, 'findings': [f], 'sample': None}, {}))
    except AnalysisError as e:
        return ('analysis-error', (e.kind, e.msg + ((' at %s' % (e.loc,)) if getattr(e, 'loc', None) else '')
                                   + ' [config %r]' % (item,)))
    except Exception:
        return ('internal', traceback.format_exc() + '\n[config %r]' % (item,))


def _cost(item):
    c = 1
    for v in item:
        if isinstance(v, int) and not isinstance(v, bool):
            c *= max(v, 1)
    return c


def pmap(fn, repo, items, jobs):
    """fn(session, item) -> result; returns list of results in order.  Raises AnalysisError on the first
    analysis / internal error reported by a worker."""
    items = list(items)
    if not items:
        return []
    order = sorted(range(len(items)), key=lambda i: -_cost(items[i]))     # longest first
    args = [(fn, repo, items[i]) for i in order]
    if jobs <= 1 or len(items) < 4:
        res0 = [_work(a) for a in args]
    else:
        ctx = mp.get_context('fork')
        chunk = max(1, min(8, len(items) // (jobs * 16)))
        with ctx.Pool(min(jobs, len(items))) as pool:
            res0 = pool.map(_work, args, chunksize=chunk)
    res = [None] * len(items)
    for i, r in zip(order, res0):
        res[i] = r
    out = []
    for kind, val in res:
        if kind == 'ok':
            out.append(val[0])
            for k, v in val[1].items():
                FUNCS[k] = FUNCS.get(k, 0) + v
        else:
            # a configuration the engine could not follow: remembered, decided by the runner (a violation found on
            # another configuration is still a violation; without one the run is analysis-broken, exit 2)
            ERRORS.append((val[0], val[1]) if kind == 'analysis-error' else ('internal', val))
            out.append({'cmp': 0, 'diff': 0, 'findings': [], 'sample': None, 'analysis_error': True})
    return out


ERRORS = []         # (kind, message) of configurations that could not be analysed in this check run
