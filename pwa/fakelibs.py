"""Transfer tables for the external libraries (torch, numpy, pywt, pkg_resources, builtins).

``Libs`` is what the interpreter consults for everything that is not repository
code.  An attribute or function that has no row here is an
``AnalysisError('unknown-primitive')``: the engine refuses to guess.
"""
import functools
import operator
import os
from fractions import Fraction

import numpy as np

from . import ops, npz
from .domain import DataT, Q2, Poly, Prod, TorchSize, HOOKS, Storage, is_const_scalar, Base
from .sym import Sym, sym_from, contains_sym, outer as sym_outer
from .errors import AnalysisError, PyExc
from .pyinterp import (ExcClass, ExcValue, ExtMethod, ExtBound, ExtClassMethod, ExtClassBound, PyInstance,
                       PyClass, PyFunc, BoundMethod, Module)
from .ops import DomainViolation


class ExtMod:
    def __init__(self, name, attrs=None):
        self.name = name
        self.attrs = attrs or {}

    def __repr__(self):
        return '<ext module %s>' % self.name


class Marker:
    """A class object of an external library, used only for isinstance()."""

    def __init__(self, name):
        self.name = name

    def __repr__(self):
        return '<ext class %s>' % self.name


class DType:
    def __init__(self, tag):
        self.tag = tag

    def __eq__(self, o):
        return isinstance(o, DType) and o.tag == self.tag

    def __hash__(self):
        return hash(self.tag)

    def __repr__(self):
        return 'dtype:%s' % self.tag


class Device:
    def __init__(self, tag):
        self.tag = tag

    def __eq__(self, o):
        return isinstance(o, Device) and o.tag == self.tag

    def __hash__(self):
        return hash(self.tag)

    @property
    def type(self):
        return 'cpu'

    def __repr__(self):
        return 'device:%s' % self.tag


class ConstT:
    """A small concrete constant tensor (index vectors, index lists for index_select): configuration data,
    kept concrete; arithmetic and comparisons delegate to numpy."""

    def __init__(self, arr, device=None):
        self.arr = np.asarray(arr)
        self.device = device
        self.requires_grad = False

    def as_index(self):
        return self.arr

    @property
    def shape(self):
        return TorchSize(self.arr.shape)

    @property
    def ndim(self):
        return self.arr.ndim

    def numel(self):
        return int(self.arr.size)

    def _w(self, a):
        return ConstT(a, self.device)

    @staticmethod
    def _v(o):
        return o.arr if isinstance(o, ConstT) else o

    def _bin(name):
        def f(self, o):
            if isinstance(o, (DataT, Sym)):
                return NotImplemented
            return self._w(getattr(self.arr, name)(ConstT._v(o)))
        return f
    for _n in ('add', 'radd', 'sub', 'rsub', 'mul', 'rmul', 'floordiv', 'rfloordiv', 'mod', 'rmod', 'lt', 'le', 'gt',
               'ge', 'eq', 'ne', 'and', 'or', 'truediv', 'rtruediv'):
        locals()['__%s__' % _n] = _bin('__%s__' % _n)
    del _n, _bin
    __hash__ = None

    def __neg__(self):
        return self._w(-self.arr)

    def __abs__(self):
        return self._w(abs(self.arr))

    def __invert__(self):
        return self._w(~self.arr)

    def __getitem__(self, i):
        r = self.arr[ConstT._v(i) if not isinstance(i, tuple) else tuple(ConstT._v(x) for x in i)]
        return self._w(r)

    def __len__(self):
        return len(self.arr)

    def __bool__(self):
        return bool(self.arr)

    def __int__(self):
        return int(self.arr)

    def __index__(self):
        return int(self.arr)

    def long(self):
        return self._w(self.arr.astype(np.int64))

    def int(self):
        return self._w(self.arr.astype(np.int32))

    def to(self, *a, **k):
        return self

    def abs(self):
        return self._w(np.abs(self.arr))

    def clamp(self, min=None, max=None):
        return self._w(np.clip(self.arr, min, max))

    def flip(self, *dims):
        d = dims[0] if len(dims) == 1 and isinstance(dims[0], (tuple, list)) else dims
        return self._w(np.flip(self.arr, axis=tuple(d)))

    def tolist(self):
        return self.arr.tolist()

    def item(self):
        return self.arr.item()

    def numpy(self):
        return self.arr

    def cpu(self):
        return self


class ExtBase:
    """nn.Module / autograd.Function as base classes of repository classes."""

    def __init__(self, extname, methods):
        self.extname = extname
        self.methods = methods

    def class_attr(self, name):
        return self.methods.get(name)

    def __repr__(self):
        return '<ext base %s>' % self.extname


class Ctx:
    """autograd context object: per call, written in forward, read in backward."""

    def __init__(self, libs, fn_cls):
        object.__setattr__(self, '_libs', libs)
        object.__setattr__(self, '_fn', fn_cls)
        object.__setattr__(self, '_attrs', {})
        object.__setattr__(self, '_saved', None)
        object.__setattr__(self, 'needs_input_grad', ())

    def save_for_backward(self, *ts):
        object.__setattr__(self, '_saved', tuple(ts))
        self._libs.interp.event('ctx-save', fn=self._fn.name, n=len(ts))

    @property
    def saved_tensors(self):
        if self._saved is None:
            return ()
        return self._saved

    def mark_non_differentiable(self, *a):
        pass

    def set_materialize_grads(self, v):
        pass


_CONTAINER_MUTATORS = ('append', 'extend', 'insert', 'pop', 'remove', 'clear', 'update', 'setdefault', 'popitem',
                       'add', 'discard', 'sort', 'reverse', '__setitem__', '__delitem__')


def _raised_inside_numpy(e):
    """the innermost frame of the exception is numpy's own code: numpy rejected the (formal) arrays of the analysed
    program exactly as it would reject the real ones (shape mismatch, bad axis, ...)"""
    tb = e.__traceback__
    while tb.tb_next is not None:
        tb = tb.tb_next
    fn = tb.tb_frame.f_code.co_filename
    # pwa/sym.py is a thin wrapper that applies the numpy operation to the array of formal taps: a numpy complaint
    # raised from there (bad axes, zero slice step, shape mismatch) is what the real array operation raises too
    return '/numpy/' in fn or fn.startswith('<__array_function__') or fn.endswith('/pwa/sym.py')


class Transparent:
    """analyser-provided stand-in whose attributes are read as they are (inspect.Signature, BoundArguments)"""


class HostMod:
    """a real standard-library module"""

    def __init__(self, name, real, overrides=None):
        self.name, self.real, self.overrides = name, real, overrides or {}


class ApplyRecord:
    def __init__(self, cls, ctx, args, out, loc, path):
        self.cls, self.ctx, self.args, self.out, self.loc, self.path = cls, ctx, args, out, loc, path


class ArgList(list):
    """A list handed in by the caller: mutation is a purity violation."""
    libs = None
    label = 'argument list'

    def _mut(self, how):
        if ArgList.libs is not None and getattr(self, 'frozen', True):
            ArgList.libs.interp.finding('R-PURE', 'the caller\'s %s is mutated (%s)' % (self.label, how),
                                        construct='list-mutation', disc=how)

    def append(self, x):
        self._mut('append'); list.append(self, x)

    def insert(self, i, x):
        self._mut('insert'); list.insert(self, i, x)

    def extend(self, x):
        self._mut('extend'); list.extend(self, x)

    def pop(self, *a):
        self._mut('pop'); return list.pop(self, *a)

    def remove(self, x):
        self._mut('remove'); list.remove(self, x)

    def reverse(self):
        self._mut('reverse'); list.reverse(self)

    def sort(self, *a, **k):
        self._mut('sort'); list.sort(self, *a, **k)

    def clear(self):
        self._mut('clear'); list.clear(self)

    def __setitem__(self, i, v):
        self._mut('item assignment'); list.__setitem__(self, i, v)

    def __delitem__(self, i):
        self._mut('item deletion'); list.__delitem__(self, i)

    def __iadd__(self, o):
        self._mut('+='); return list.__iadd__(self, o)


class AbstractWavelet:
    """pywt.Wavelet(name): four tap lists of one common length (as in PyWavelets)."""

    def __init__(self, name, L, role=None):
        self.name = name
        self.L = L
        role = role or ('pywt', name)
        self.dec_lo = [Poly.sym(role + ('dec_lo',), i) for i in range(L)]
        self.dec_hi = [Poly.sym(role + ('dec_hi',), i) for i in range(L)]
        self.rec_lo = [Poly.sym(role + ('rec_lo',), i) for i in range(L)]
        self.rec_hi = [Poly.sym(role + ('rec_hi',), i) for i in range(L)]
        self.dec_len = L
        self.rec_len = L

    @property
    def filter_bank(self):
        return (self.dec_lo, self.dec_hi, self.rec_lo, self.rec_hi)


def user_filter(tag, L):
    """a numpy filter array handed in by the user"""
    arr = np.empty((L,), dtype=object)
    for i in range(L):
        arr[i] = Poly.sym(('user', tag), i)
    s = Sym(arr, 'np', 'float64', origin='arg')
    return s


PYWT_MODES = ('zero', 'constant', 'symmetric', 'periodic', 'smooth', 'periodization', 'reflect',
              'antisymmetric', 'antireflect')

TORCH_GLOBAL_SETTERS = (
    'set_default_dtype', 'set_default_tensor_type', 'manual_seed', 'seed', 'set_grad_enabled',
    'set_num_threads', 'set_num_interop_threads', 'use_deterministic_algorithms', 'set_flush_denormal',
    'set_default_device', 'set_float32_matmul_precision', 'set_rng_state', 'set_printoptions',
    'autograd.set_detect_anomaly', 'set_anomaly_enabled',
)


class Libs:
    def __init__(self, wavelets=None, data_dir=None):
        self.interp = None
        self.wavelets = wavelets or {}        # name -> L
        self.apply_log = []
        self.needs_override = None            # callable(cls, args) -> tuple or None
        self.data_dir = data_dir
        self.npz_loads = []
        self.default_dtype_reads = []
        self.grad_enabled = True
        self._mods = {}
        self.builtins = {}
        self._build()

    def bind(self, interp):
        from . import tensor_api          # installs the operator table of abstract tensors
        self.interp = interp
        ArgList.libs = self
        HOOKS['inplace'] = self._inplace_hook
        HOOKS['event'] = lambda kind, **kw: interp.event(kind, **kw)
        if self.data_dir is None:
            self.data_dir = os.path.join(interp.repo, interp.package, 'dtcwt', 'data')

    # ------------------------------------------------------------- hooks
    def _inplace_hook(self, t, how):
        origin = t.storage.origin
        if origin in ('arg', 'buffer', 'param', 'global'):
            self.interp.finding('R-PURE', 'in-place %s on a tensor whose storage is owned by %s' % (how, origin),
                                construct='inplace-' + origin, disc=how)
        elif t.is_view:
            raise AnalysisError('write-through-alias', 'in-place %s through a view of a fresh tensor at %s '
                                '(aliasing writes are not modelled)' % (how, self.interp.loc()))
        self.interp.event('inplace', how=how, origin=origin)

    def on_enter(self, f, fr):
        pass

    def is_tensor(self, obj):
        return isinstance(obj, DataT)

    # ----------------------------------------------------------- modules
    # pure standard-library modules whose functions only ever see configuration data (ints, strings, lists of
    # those): used as they are.  Callables of the analysed program never reach them (partial / reduce / map are
    # modelled separately).
    HOST_MODULES = ('itertools', 'operator', 'collections', 'typing', 'enum', 'numbers', 'abc', 'string', 'types',
                    'collections.abc', 'dataclasses', 'contextlib', 're', 'sys')

    def module(self, dotted):
        if dotted in self._mods:
            return self._mods[dotted]
        if dotted == 'inspect':
            self._mods[dotted] = ExtMod('inspect', {'signature': self._signature})
            return self._mods[dotted]
        if dotted in self.HOST_MODULES:
            import importlib
            real = importlib.import_module(dotted)
            over = {}
            if dotted == 'dataclasses':
                over = {'dataclass': self._dataclass, 'field': self._dc_field}
            if dotted == 'contextlib':
                over = {'contextmanager': self._unsupported('contextlib.contextmanager')}
            m = HostMod(dotted, real, over)
            self._mods[dotted] = m
            return m
        raise AnalysisError('unknown-primitive', 'import of external module %s' % dotted)

    def _build(self):
        L = self
        b = self.builtins
        for n in ('ValueError', 'NotImplementedError', 'KeyError', 'ImportError', 'AssertionError', 'IOError',
                  'TypeError', 'IndexError', 'RuntimeError', 'AttributeError', 'Exception', 'OSError',
                  'ZeroDivisionError', 'NameError', 'StopIteration', 'ModuleNotFoundError', 'LookupError'):
            b[n] = ExcClass(n)
        b.update({
            'range': range, 'len': self._len, 'tuple': self._tuple, 'list': self._list, 'dict': self._dict,
            'zip': self._zip, 'enumerate': self._enumerate, 'reversed': self._reversed, 'int': int, 'float': self._float,
            'str': str, 'bool': self._bool, 'abs': self._abs, 'min': min, 'max': max, 'sum': self._sum,
            'isinstance': self._isinstance, 'print': lambda *a, **k: None, 'super': object(),
            'staticmethod': object(), 'sorted': sorted, 'any': self._any, 'all': self._all, 'round': round,
            'set': set, 'frozenset': frozenset, 'map': lambda f, *its: [self.interp.call(f, list(a), {}) for a in zip(*its)],
            'hasattr': self._hasattr, 'getattr': self._getattr3, 'id': id, 'type': self._type, 'callable': callable,
            'divmod': divmod, 'pow': pow, 'slice': slice, 'repr': repr, 'hash': hash, 'iter': iter, 'next': next,
            'object': Marker('object'), 'property': Marker('property'), 'classmethod': Marker('classmethod'),
            'True': True, 'False': False, 'None': None, 'Ellipsis': Ellipsis, 'NotImplemented': NotImplemented,
        })
        # ---------------------------------------------------------- torch
        self.TENSOR = Marker('torch.Tensor')
        self.NDARRAY = Marker('numpy.ndarray')
        self.WAVELET = Marker('pywt.Wavelet')
        self.DT_DEFAULT = DType('default')
        dts = {'float': DType('f32'), 'float32': DType('f32'), 'double': DType('f64'), 'float64': DType('f64'),
               'half': DType('f16'), 'float16': DType('f16'), 'bfloat16': DType('bf16'),
               'int32': DType('i32'), 'int64': DType('i64'), 'long': DType('i64'), 'int': DType('i32'),
               'bool': DType('bool')}
        module_base = ExtBase('torch.nn.Module', {
            '__init__': ExtMethod('__init__', self._module_init),
            'register_buffer': ExtMethod('register_buffer', self._register_buffer),
            'register_parameter': ExtMethod('register_parameter', self._register_parameter),
        })
        function_base = ExtBase('torch.autograd.Function', {
            'apply': ExtClassMethod('apply', self._function_apply),
        })
        self.module_base, self.function_base = module_base, function_base
        F = ExtMod('torch.nn.functional', {
            'conv2d': ops.conv2d, 'conv_transpose2d': ops.conv_transpose2d, 'pad': ops.pad,
            'avg_pool2d': ops.avg_pool2d, 'interpolate': ops.interpolate,
            'relu': self._nonlinear('relu'), 'conv1d': self._conv1d, 'conv_transpose1d': self._conv_transpose1d,
            'avg_pool1d': self._unsupported('avg_pool1d'),
        })
        nn = ExtMod('torch.nn', {'Module': module_base, 'Parameter': self._parameter, 'functional': F})
        autograd = ExtMod('torch.autograd', {'Function': function_base})
        torch = ExtMod('torch', {
            'Tensor': self.TENSOR, 'tensor': self._torch_tensor, 'as_tensor': self._torch_tensor,
            'from_numpy': self._torch_tensor,
            'zeros': self._torch_zeros, 'zeros_like': self._zeros_like, 'cat': self._torch_cat, 'stack': self._torch_stack,
            'unbind': ops.unbind, 'index_select': ops.index_select, 'sqrt': self._sqrt, 'reshape': self._reshape,
            'Size': self._size, 'get_default_dtype': self._get_default_dtype, 'nn': nn, 'autograd': autograd,
            'roll': self._torch_roll, 'flip': self._torch_flip, 'transpose': self._torch_transpose,
            'is_grad_enabled': self._is_grad_enabled, 'abs': self._nonlinear('abs'),
            'where': self._torch_where, 'sign': self._nonlinear('sign'), 'exp': self._nonlinear('exp'),
            'log': self._nonlinear('log'), 'clamp': self._nonlinear('clamp'), 'pow': self._pow,
            'no_grad': self._ctx_manager, 'enable_grad': self._ctx_manager, 'inference_mode': self._ctx_manager,
            # functional spellings of the operators and simple algebraic equivalents
            'add': lambda a, b, alpha=1: self.binop(operator.add, a, b if alpha == 1 else self.binop(operator.mul, b, alpha)),
            'sub': lambda a, b, alpha=1: self.binop(operator.sub, a, b if alpha == 1 else self.binop(operator.mul, b, alpha)),
            'mul': lambda a, b: self.binop(operator.mul, a, b), 'multiply': lambda a, b: self.binop(operator.mul, a, b),
            'div': lambda a, b: self.binop(operator.truediv, a, b), 'true_divide': lambda a, b: self.binop(operator.truediv, a, b),
            'neg': lambda a: self.binop(operator.mul, a, -1), 'negative': lambda a: self.binop(operator.mul, a, -1),
            'square': lambda a: self.binop(operator.pow, a, 2),
            'rsqrt': lambda a: self.binop(operator.pow, a, -0.5),
            'reciprocal': lambda a: self.binop(operator.pow, a, -1),
            'hypot': lambda a, b: self._sqrt(self.binop(operator.add, self.binop(operator.pow, a, 2),
                                                         self.binop(operator.pow, b, 2))),
            't': lambda x: self._torch_transpose(x, 0, 1), 'swapaxes': self._torch_transpose,
            'concat': self._torch_cat, 'concatenate': self._torch_cat,
            'hstack': lambda ts: self._torch_cat(ts, 1 if list(self.iterate(ts))[0].ndim > 1 else 0),
            'vstack': lambda ts: self._xstack(ts, 2, 0), 'row_stack': lambda ts: self._xstack(ts, 2, 0),
            'dstack': lambda ts: self._xstack(ts, 3, 2),
            'tile': lambda x, dims: self._tile(x, list(dims)),
            'full': lambda size, fill_value, dtype=None, device=None, **k: self._full(size, fill_value, tag=self._dtype_tag(dtype, 'default'), device=device),
            'full_like': lambda x, fill_value, dtype=None, **k: ops.retag_dims(self._full(x.shape, fill_value, tag=self._dtype_tag(dtype, x.dtype), device=x.device), x.dims),
            'swapdims': self._torch_transpose,
            'movedim': self._movedim, 'moveaxis': self._movedim, 'permute': lambda x, dims: ops.permute(x, list(dims)),
            'empty': self._torch_empty, 'empty_like': self._empty_like, 'ones': self._ones, 'ones_like': self._ones_like,
            'flatten': self._flatten,
            'squeeze': lambda x, dim=None: self.interp.getattr(x, 'squeeze')(dim) if dim is not None else self.interp.getattr(x, 'squeeze')(),
            'unsqueeze': lambda x, dim: self.interp.getattr(x, 'unsqueeze')(dim),
            'repeat_interleave': self._repeat_interleave, 'chunk': self._torch_chunk, 'split': self._torch_split, 'narrow': self._torch_narrow,
            'finfo': self._torch_finfo, 'arange': self._torch_arange, 'remainder': self._torch_remainder, 'fmod': self._torch_remainder,
            'is_tensor': lambda x: isinstance(x, (DataT, Sym)) and getattr(x, 'lib', 'torch') == 'torch',
            'device': lambda s: Device(str(s)),
        })
        for k, v in dts.items():
            torch.attrs[k] = v
        for name in TORCH_GLOBAL_SETTERS:
            if '.' not in name:
                torch.attrs[name] = self._global_setter(name)
        self._mods.update({'torch': torch, 'torch.nn': nn, 'torch.nn.functional': F, 'torch.autograd': autograd})
        # ---------------------------------------------------------- numpy
        npm = ExtMod('numpy', {
            'arange': np.arange, 'array': self._np_array, 'asarray': self._np_array, 'asanyarray': self._np_asanyarray,
            'copy': self._np_copy, 'outer': self._np_outer, 'ones': np.ones, 'zeros': np.zeros, 'pad': self._np_pad,
            'repeat': self._np_repeat, 'stack': self._np_stack, 'sqrt': self._np_sqrt, 'atleast_2d': self._np_atleast_2d,
            'fmod': np.fmod, 'mod': np.mod, 'where': np.where, 'load': self._np_load, 'ndarray': self.NDARRAY,
            'concatenate': self._np_concatenate, 'flip': self._np_flip, 'roll': np.roll, 'abs': np.abs,
            'minimum': np.minimum, 'maximum': np.maximum, 'floor': np.floor, 'ceil': np.ceil, 'pi': np.pi,
            'int32': np.int32, 'int64': np.int64, 'float32': np.float32, 'float64': np.float64,
            'transpose': self._np_transpose, 'tile': self._np_tile, 'newaxis': None, 'clip': np.clip,
            'full': np.full, 'empty': np.empty, 'linspace': np.linspace, 'cumsum': np.cumsum,
            'ascontiguousarray': self._np_array,
        })
        self._mods['numpy'] = npm
        # ----------------------------------------------------------- pywt
        pywt = ExtMod('pywt', {'Wavelet': self._pywt_wavelet, 'dwt_coeff_len': self._dwt_coeff_len})
        self._mods['pywt'] = pywt
        self._mods['pkg_resources'] = ExtMod('pkg_resources', {'resource_stream': self._resource_stream})
        self._mods['functools'] = ExtMod('functools', {'wraps': lambda f: (lambda g: g),
                                                       'lru_cache': self._lru_cache, 'cache': self._lru_cache(None),
                                                       'partial': self._partial, 'reduce': self._reduce,
                                                       'total_ordering': lambda c: c})
        self._mods['math'] = ExtMod('math', {'sqrt': self._np_sqrt, 'pi': np.pi, 'ceil': lambda x: int(np.ceil(x)),
                                             'floor': lambda x: int(np.floor(x)), 'log2': lambda x: float(np.log2(x))})
        self._mods['warnings'] = ExtMod('warnings', {'warn': lambda *a, **k: None})
        self._mods['os'] = ExtMod('os', {})
        self._mods['copy'] = ExtMod('copy', {'copy': self._unsupported('copy.copy'), 'deepcopy': self._unsupported('copy.deepcopy')})

    def _signature(self, f):
        """inspect.signature of a function of the analysed program: bind() and the parameter names"""
        from .pyinterp import BoundMethod
        skip = 0
        if isinstance(f, BoundMethod):
            f, skip = f.func, 1
        if not isinstance(f, PyFunc):
            raise AnalysisError('unsupported', 'inspect.signature of %s' % type(f).__name__)
        interp = self.interp
        import collections

        class Bound(Transparent):
            def __init__(self, arguments):
                self.arguments = arguments

            def apply_defaults(self):
                return None

        class Sig(Transparent):
            parameters = collections.OrderedDict(
                (p.arg, p.arg) for p in (f.node.args.posonlyargs + f.node.args.args)[skip:] + f.node.args.kwonlyargs)

            def bind(self_, *a, **k):
                loc = collections.OrderedDict()
                interp.bind_arguments(f, ([None] * skip) + list(a), k, loc)
                # Python's bind() leaves out parameters that fall back to their default
                given = set(k)
                names = [p.arg for p in (f.node.args.posonlyargs + f.node.args.args)]
                given |= set(names[:skip + len(a)])
                out = collections.OrderedDict((n, v) for n, v in loc.items()
                                              if n in given or n in (getattr(f.node.args.vararg, 'arg', None),
                                                                      getattr(f.node.args.kwarg, 'arg', None)))
                for n in names[:skip]:
                    out.pop(n, None)
                return Bound(out)
        return Sig()

    def _partial(self, f, *a, **k):
        interp = self.interp

        def bound(*more, **kw):
            return interp.call(f, list(a) + list(more), dict(k, **kw))
        bound.__name__ = 'partial'
        return bound

    def _reduce(self, f, seq, *init):
        it = self.iterate(seq)
        if init:
            acc = init[0]
        else:
            try:
                acc = next(it)
            except StopIteration:
                raise PyExc('TypeError', 'reduce() of empty iterable with no initial value', loc=self.interp.loc())
        for x in it:
            acc = self.interp.call(f, [acc, x], {})
        return acc

    def _dc_field(self, default=None, default_factory=None, **k):
        return ('__dc_field__', default, default_factory)

    def _dataclass(self, cls=None, **opts):
        """@dataclass on a class of the analysed program: synthesises __init__ from the annotated fields"""
        if cls is None:
            return lambda c: self._dataclass(c, **opts)
        if not isinstance(cls, PyClass):
            raise AnalysisError('unknown-construct', 'dataclass() of %s' % type(cls).__name__)
        fields = list(getattr(cls, 'annotated', []))
        params, body, env = [], [], {}
        for name in fields:
            if name in cls.ns:
                v = cls.ns[name]
                if isinstance(v, tuple) and len(v) == 3 and v[0] == '__dc_field__':
                    if v[2] is not None:
                        env['_dcf_' + name] = v[2]
                        params.append('%s=None' % name)
                        body.append('    self.%s = _dcf_%s() if %s is None else %s' % (name, name, name, name))
                        continue
                    v = v[1]
                env['_dcd_' + name] = v
                params.append('%s=_dcd_%s' % (name, name))
            else:
                params.append(name)
            body.append('    self.%s = %s' % (name, name))
        src = 'def __init__(self%s):\n%s\n' % (''.join(', ' + q for q in params), '\n'.join(body) or '    pass')
        import ast as _ast
        node = _ast.parse(src).body[0]
        cls.ns['__init__'] = self.interp.synth_function(node, cls, env)
        if opts.get('frozen'):
            cls.frozen_dataclass = True
        return cls

    def _config_only(self, real, label):
        """a real numpy / math function, usable on configuration data only (shapes, index arrays, flags)"""
        def f(*a, **k):
            def bad(v):
                if isinstance(v, (DataT, Sym)):
                    return True
                if isinstance(v, (list, tuple)):
                    return any(bad(x) for x in v)
                return False
            if any(bad(v) for v in a) or any(bad(v) for v in k.values()):
                raise AnalysisError('unknown-primitive', '%s applied to tensor / filter data' % label)
            a = [v.arr if isinstance(v, ConstT) else v for v in a]
            return real(*a, **k)
        f.__module__ = 'numpy'
        return f

    def _unsupported(self, name):
        def f(*a, **k):
            raise AnalysisError('unknown-primitive', name)
        return f

    def _nonlinear(self, name):
        def f(*a, **k):
            if any(isinstance(x, DataT) for x in a):
                from . import nonlin
                return nonlin.pointwise(name, *a, **k)
            raise AnalysisError('unknown-primitive', name)
        return f

    def _global_setter(self, name):
        def f(*a, **k):
            self.interp.finding('R-PURE', 'process-wide torch state is changed (torch.%s)' % name,
                                construct='torch-global-state', disc=name)
        return f

    # --------------------------------------------------------- generic ops
    def getattr(self, obj, name):
        if isinstance(obj, ExtMod):
            if name in obj.attrs:
                return obj.attrs[name]
            if obj.name in ('numpy', 'math') and not name.startswith('_'):
                import math as _math
                real = getattr(np if obj.name == 'numpy' else _math, name, None)
                if real is not None and (callable(real) or isinstance(real, (int, float))):
                    if not callable(real):
                        return real
                    return self._config_only(real, '%s.%s' % (obj.name, name))
            raise AnalysisError('unknown-primitive', '%s.%s at %s' % (obj.name, name, self.interp.loc()))
        if isinstance(obj, Transparent):
            try:
                return getattr(obj, name)
            except AttributeError:
                raise PyExc('AttributeError', "'%s' object has no attribute '%s'" % (type(obj).__name__, name),
                            loc=self.interp.loc())
        if isinstance(obj, HostMod):
            if name in obj.overrides:
                return obj.overrides[name]
            try:
                return getattr(obj.real, name)
            except AttributeError:
                raise PyExc('AttributeError', "module '%s' has no attribute '%s'" % (obj.name, name),
                            loc=self.interp.loc())
        if isinstance(obj, DataT):
            from . import tensor_api
            return tensor_api.get(self, obj, name)
        if isinstance(obj, Sym):
            from . import tensor_api
            return tensor_api.get_sym(self, obj, name)
        if isinstance(obj, Ctx):
            if name in ('save_for_backward', 'saved_tensors', 'needs_input_grad', 'mark_non_differentiable',
                        'set_materialize_grads'):
                return getattr(obj, name)
            if name in obj._attrs:
                return obj._attrs[name]
            raise PyExc('AttributeError', "ctx has no attribute '%s'" % name, loc=self.interp.loc())
        if isinstance(obj, (ExtBound, ExtClassBound)):
            raise AnalysisError('unknown-construct', 'attribute of bound external method')
        if isinstance(obj, ExcValue):
            if name == 'args':
                return obj.args
            raise AnalysisError('unknown-construct', 'exception attribute %s' % name)
        if isinstance(obj, (AbstractWavelet, npz.NpzMapping, npz.FileHandle, ConstT, DType, Device)) or \
                type(obj).__name__ == 'FInfo':
            try:
                return getattr(obj, name)
            except AttributeError:
                raise PyExc('AttributeError', '%s has no attribute %s' % (type(obj).__name__, name),
                            loc=self.interp.loc())
        if isinstance(obj, (str, list, tuple, dict, set, int, float, range, np.ndarray, np.generic, Fraction,
                            frozenset, slice, Q2)) or obj is None:
            try:
                return getattr(obj, name)
            except AttributeError:
                raise PyExc('AttributeError', "'%s' object has no attribute '%s'" % (type(obj).__name__, name),
                            loc=self.interp.loc())
        tmod = (type(obj).__module__ or '').split('.')[0]
        omod = (getattr(obj, '__module__', '') or '').split('.')[0] if isinstance(obj, type) else ''
        import enum as _enum
        if tmod in self.HOST_MODULES or omod in self.HOST_MODULES or isinstance(obj, _enum.Enum) or \
                (isinstance(obj, type) and issubclass(obj, (_enum.Enum, tuple))):
            # objects and classes of the pure standard-library modules (enum members, namedtuple classes, ...)
            try:
                return getattr(obj, name)
            except AttributeError:
                raise PyExc('AttributeError', "'%s' object has no attribute '%s'" % (type(obj).__name__, name),
                            loc=self.interp.loc())
        raise AnalysisError('unknown-construct', 'attribute %s of %s at %s' % (name, type(obj).__name__,
                                                                            self.interp.loc()))

    def setattr(self, obj, name, val):
        if isinstance(obj, Ctx):
            obj._attrs[name] = val
            return
        if isinstance(obj, DataT) and name == 'requires_grad':
            obj.requires_grad = bool(val)
            return
        raise AnalysisError('unknown-construct', 'attribute store on %s at %s' % (type(obj).__name__,
                                                                             self.interp.loc()))

    def instance_setattr(self, inst, name, val):
        if inst.frozen:
            self.interp.event('module-attr-write', target='%s.%s' % (inst.cls.name, name))
            self.interp.finding('R-PURE', 'module attribute %s.%s is written during a transform call'
                                % (inst.cls.name, name), construct='module-state-write', disc=name)
        if isinstance(val, (DataT, Sym)) and getattr(val, 'is_param', False):
            inst.params[name] = val
        inst.attrs[name] = val

    def getitem(self, obj, idx):
        if isinstance(obj, (DataT, Sym)):
            return obj[idx]
        if isinstance(obj, (PyInstance, PyClass, Module, PyFunc)):
            raise PyExc('TypeError', 'object is not subscriptable', loc=self.interp.loc())
        try:
            if isinstance(obj, np.ndarray):
                r = obj[idx]
                return r
            return obj[idx]
        except KeyError as e:
            raise PyExc('KeyError', str(e), loc=self.interp.loc())
        except IndexError as e:
            raise PyExc('IndexError', str(e), loc=self.interp.loc())
        except TypeError as e:
            raise PyExc('TypeError', str(e), loc=self.interp.loc())
        except ValueError as e:
            if isinstance(obj, (Sym, np.ndarray, list, tuple, str, range)):
                raise PyExc('ValueError', str(e), loc=self.interp.loc())      # e.g. slice step cannot be zero
            raise

    def setitem(self, obj, idx, val):
        if isinstance(obj, DataT):
            obj[idx] = val
            return
        if isinstance(obj, Sym):
            origin = obj.storage.origin
            if origin in ('arg', 'buffer', 'param', 'global', 'cache'):
                self.interp.finding('R-PURE', 'in-place write into a filter array owned by %s' % origin,
                                    construct='inplace-' + origin, disc='setitem')
            obj.arr[idx] = val.arr if isinstance(val, Sym) else val
            return
        if isinstance(obj, dict):
            self._note_container_write(obj)
            obj[idx] = val
            return
        if isinstance(obj, list):
            self._note_container_write(obj)
            try:
                obj[idx] = val
            except IndexError as e:
                raise PyExc('IndexError', str(e), loc=self.interp.loc())
            return
        if isinstance(obj, np.ndarray):
            obj[idx] = val
            return
        raise AnalysisError('unknown-construct', 'subscript store on %s at %s' % (type(obj).__name__,
                                                                             self.interp.loc()))

    def _note_container_write(self, obj):
        # module-level containers are process state
        for m in self.interp.modules.values():
            for k, v in m.ns.items():
                if v is obj:
                    self.interp.event('global-container-write', target='%s.%s' % (m.name, k))
                    return
                if isinstance(v, PyClass):
                    for ck, cv in v.ns.items():
                        if cv is obj:
                            self.interp.event('classattr-write', target='%s.%s[...]' % (v.name, ck))
                            return
        # containers kept on a constructed (frozen) module instance outlive the call as well
        for inst in self.interp.instances:
            if not inst.frozen:
                continue
            for k, v in inst.attrs.items():
                if v is obj:
                    self.interp.event('module-attr-write', target='%s.%s[...]' % (inst.cls.name, k))
                    return

    def delitem(self, obj, idx):
        if isinstance(obj, (dict, list)):
            self._note_container_write(obj)
            del obj[idx]
            return
        raise AnalysisError('unknown-construct', 'del subscript on %s' % type(obj).__name__)

    def iterate(self, it):
        if isinstance(it, (DataT,)):
            raise AnalysisError('unsupported', 'iteration over a data tensor')
        if isinstance(it, (PyInstance, PyClass, PyFunc, Module)) or it is None:
            raise PyExc('TypeError', 'object is not iterable', loc=self.interp.loc())
        return iter(it)

    def truth(self, v):
        if isinstance(v, (DataT,)):
            raise DomainViolation('R-LIN', 'control flow depends on tensor contents (truth value of a data tensor)')
        if isinstance(v, Sym):
            raise AnalysisError('unsupported', 'truth value of a filter array')
        if isinstance(v, np.ndarray):
            if v.size != 1:
                raise PyExc('ValueError', 'The truth value of an array with more than one element is ambiguous',
                            loc=self.interp.loc())
            return bool(v)
        if isinstance(v, (PyInstance, PyFunc, PyClass, Module)):
            return True
        return bool(v)

    def binop(self, op, a, b):
        try:
            r = op(a, b)
        except TypeError as e:
            raise PyExc('TypeError', str(e), loc=self.interp.loc())
        except ZeroDivisionError as e:
            raise PyExc('ZeroDivisionError', str(e), loc=self.interp.loc())
        if r is NotImplemented:
            raise PyExc('TypeError', 'unsupported operand types: %s and %s' % (type(a).__name__, type(b).__name__),
                        loc=self.interp.loc())
        return r

    def unop(self, op, v):
        try:
            return op(v)
        except TypeError as e:
            raise PyExc('TypeError', str(e), loc=self.interp.loc())

    def is_(self, a, b):
        return a is b

    def contains(self, container, item):
        if isinstance(container, (DataT, Sym)):
            raise AnalysisError('unsupported', '`in` on a tensor')
        if isinstance(container, (list, tuple)):
            for x in container:
                if x is item:
                    return True
                if isinstance(x, (DataT, Sym)) or isinstance(item, (DataT, Sym)):
                    continue
                try:
                    if x == item:
                        return True
                except Exception:
                    pass
            return False
        try:
            return item in container
        except TypeError as e:
            raise PyExc('TypeError', str(e), loc=self.interp.loc())

    def compare(self, op, a, b):
        if isinstance(a, (DataT, Sym)) or isinstance(b, (DataT, Sym)):
            if isinstance(a, DataT) or isinstance(b, DataT):
                raise DomainViolation('R-LIN', 'comparison on tensor contents')
            raise AnalysisError('unsupported', 'comparison on filter arrays')
        try:
            return op(a, b)
        except TypeError as e:
            raise PyExc('TypeError', str(e), loc=self.interp.loc())

    def call(self, f, args, kwargs):
        if isinstance(f, ExtBound):
            return f.meth.impl(f.inst, *args, **kwargs)
        if isinstance(f, ExtClassBound):
            return f.meth.impl(f.cls, *args, **kwargs)
        if isinstance(f, ExcClass):
            return ExcValue(f.name, tuple(args))
        if isinstance(f, Marker):
            raise AnalysisError('unknown-primitive', 'call of %s' % f.name)
        if isinstance(f, ExtBase):
            raise AnalysisError('unknown-construct', 'direct instantiation of %s' % f.extname)
        if callable(f):
            foreign = (getattr(f, '__module__', None) or '').split('.')[0] in ('numpy', 'builtins', 'operator') \
                or isinstance(f, type)
            owner = getattr(f, '__self__', None)
            if isinstance(owner, (dict, list, set)) and not isinstance(owner, ArgList) and \
                    getattr(f, '__name__', '') in _CONTAINER_MUTATORS:
                self._note_container_write(owner)
            try:
                return f(*args, **kwargs)
            except (AnalysisError, PyExc, DomainViolation):
                raise
            except (TypeError, ValueError, IndexError, KeyError, ZeroDivisionError, AttributeError) as e:
                # an exception of the analysed program only if it comes from a real library function or
                # from the call boundary itself (bad arguments); anything deeper is a bug in the analyser
                if foreign or e.__traceback__.tb_next is None or _raised_inside_numpy(e):
                    raise PyExc(type(e).__name__, str(e), loc=self.interp.loc())
                raise
        raise PyExc('TypeError', '%s object is not callable' % type(f).__name__, loc=self.interp.loc())

    def call_instance(self, inst, args, kwargs):
        if inst.cls.has_base('torch.nn.Module'):
            fwd = inst.cls.lookup('forward')
            if isinstance(fwd, PyFunc):
                return self.interp.call(BoundMethod(fwd, inst), args, kwargs)
        raise PyExc('TypeError', 'instance is not callable', loc=self.interp.loc())

    # ------------------------------------------------------------ builtins
    def _len(self, x):
        if isinstance(x, DataT):
            if x.ndim == 0:
                raise PyExc('TypeError', 'len() of a 0-d tensor')
            return x.shape[0]
        try:
            return len(x)
        except TypeError as e:
            raise PyExc('TypeError', str(e), loc=self.interp.loc())

    def _tuple(self, x=()):
        return tuple(self.iterate(x))

    def _list(self, x=()):
        return list(self.iterate(x))

    def _dict(self, *a, **k):
        if a and isinstance(a[0], npz.NpzMapping):
            d = {key: a[0][key] for key in a[0].keys()}
            d.update(k)
            return d
        return dict(*a, **k)

    def _zip(self, *its):
        return zip(*[self.iterate(i) for i in its])

    def _enumerate(self, it, start=0):
        return enumerate(self.iterate(it), start)

    def _reversed(self, it):
        return reversed(list(self.iterate(it)))

    def _float(self, x=0.0):
        if isinstance(x, Q2):
            return float(x)
        return float(x)

    def _bool(self, x=False):
        return self.truth(x)

    def _abs(self, x):
        if isinstance(x, DataT):
            from . import nonlin
            return nonlin.pointwise('abs', x)
        return abs(x)

    def _sum(self, it, start=0):
        r = start
        for v in self.iterate(it):
            r = self.binop(operator.add, r, v)
        return r

    def _any(self, it):
        return any(self.truth(v) for v in self.iterate(it))

    def _all(self, it):
        return all(self.truth(v) for v in self.iterate(it))

    def _hasattr(self, obj, name):
        try:
            self.interp.getattr(obj, name)
            return True
        except PyExc:
            return False

    def _getattr3(self, obj, name, *default):
        try:
            return self.interp.getattr(obj, name)
        except PyExc:
            if default:
                return default[0]
            raise

    def _type(self, x):
        if isinstance(x, PyInstance):
            return x.cls
        if isinstance(x, (DataT,)):
            return self.TENSOR
        return type(x)

    def _isinstance(self, obj, cls):
        if isinstance(cls, tuple):
            return any(self._isinstance(obj, c) for c in cls)
        if cls is self.TENSOR:
            return isinstance(obj, (DataT, ConstT)) or (isinstance(obj, Sym) and obj.lib == 'torch')
        if cls is self.NDARRAY:
            return isinstance(obj, np.ndarray) or (isinstance(obj, Sym) and obj.lib == 'np')
        if cls is self.WAVELET or cls == self._pywt_wavelet:
            return isinstance(obj, AbstractWavelet)
        if isinstance(cls, PyClass):
            return isinstance(obj, PyInstance) and cls in obj.cls.mro()
        if isinstance(cls, ExtBase):
            return isinstance(obj, PyInstance) and obj.cls.has_base(cls.extname)
        if isinstance(cls, type):
            return isinstance(obj, cls)
        if isinstance(cls, Marker):
            return cls.name == 'object'
        if cls in (self._float, self._bool, self._tuple, self._list, self._dict):
            return isinstance(obj, {self._float: float, self._bool: bool, self._tuple: tuple, self._list: list,
                                    self._dict: dict}[cls])
        if isinstance(cls, (DataT, Sym, ConstT, AbstractWavelet, PyInstance, str, int, float, list, dict)) or cls is None:
            # a value, not a class: Python raises
            raise PyExc('TypeError', 'isinstance() arg 2 must be a type, a tuple of types, or a union',
                        loc=self.interp.loc())
        raise AnalysisError('unknown-construct', 'isinstance against %r at %s' % (cls, self.interp.loc()))

    # --------------------------------------------------------------- torch
    def _module_init(self, inst, *a, **k):
        return None

    def _register_buffer(self, inst, name, tensor, persistent=True):
        if inst.frozen:
            self.interp.finding('R-PURE', 'buffer %s registered during a transform call' % name,
                                construct='module-state-write', disc=name)
        if isinstance(tensor, Sym):
            tensor = Sym(tensor.arr, 'torch', 'module', origin='buffer', device='module')
            tensor.buffer_name = name
            tensor.src_dtype = 'module'
        elif isinstance(tensor, DataT):
            tensor.storage.origin = 'buffer'
        inst.buffers[name] = tensor
        inst.attrs[name] = tensor

    def _register_parameter(self, inst, name, p):
        inst.params[name] = p
        inst.attrs[name] = p

    def _parameter(self, data, requires_grad=True):
        if isinstance(data, Sym):
            t = Sym(data.arr, 'torch', 'module', origin='param', device='module')
            t.is_param = True
            t.requires_grad = bool(requires_grad)
            return t
        raise AnalysisError('unsupported', 'nn.Parameter of %s' % type(data).__name__)

    def _function_apply(self, cls, *args, **kwargs):
        if kwargs:
            raise PyExc('TypeError', 'apply() takes no keyword arguments')
        fwd = cls.lookup('forward')
        from .pyinterp import StaticMethod
        if isinstance(fwd, StaticMethod):
            fwd = fwd.func
        if not isinstance(fwd, PyFunc):
            raise AnalysisError('unknown-construct', 'Function %s has no forward' % cls.name)
        ctx = Ctx(self, cls)
        needs = tuple(bool(isinstance(a, (DataT, Sym)) and a.requires_grad) and self.grad_enabled for a in args)
        if self.needs_override is not None:
            o = self.needs_override(cls, args)
            if o is not None:
                needs = tuple(o)
        object.__setattr__(ctx, 'needs_input_grad', needs)
        loc = self.interp.loc()
        path = tuple(self.interp.callpath())
        self.interp.nograd += 1
        try:
            out = self.interp.call(fwd, [ctx] + list(args), {})
        finally:
            self.interp.nograd -= 1
        rg = any(needs)
        for o in (out if isinstance(out, tuple) else (out,)):
            if isinstance(o, DataT):
                o.requires_grad = rg
        self.apply_log.append(ApplyRecord(cls, ctx, list(args), out, loc, path))
        return out

    def _torch_cat(self, tensors, dim=0, out=None):
        tensors = list(self.iterate(tensors))
        if tensors and all(isinstance(t, ConstT) for t in tensors):
            return ConstT(np.concatenate([t.arr for t in tensors], axis=dim), tensors[0].device)
        if tensors and all(isinstance(t, Sym) for t in tensors):
            try:
                r = Sym(np.concatenate([t.arr for t in tensors], axis=dim), 'torch', tensors[0].dtype,
                        device=tensors[0].device)
            except ValueError as e:
                raise PyExc('RuntimeError', str(e), loc=self.interp.loc())
            return r
        return ops.cat(tensors, dim)

    def _torch_stack(self, tensors, dim=0, out=None):
        tensors = list(self.iterate(tensors))
        if tensors and all(isinstance(t, Sym) for t in tensors):
            return Sym(np.stack([t.arr for t in tensors], axis=dim), 'torch', tensors[0].dtype,
                       device=tensors[0].device)
        return ops.stack(tensors, dim)

    def _torch_transpose(self, t, d0, d1):
        if isinstance(t, Sym):
            return t.transpose(d0, d1)
        return ops.transpose(t, d0, d1)

    def _dtype_tag(self, dtype, default):
        if dtype is None:
            return default
        if isinstance(dtype, DType):
            return dtype.tag
        raise AnalysisError('unknown-construct', 'dtype argument %r' % (dtype,))

    def _torch_tensor(self, data, dtype=None, device=None, requires_grad=False):
        if isinstance(data, Sym) or contains_sym(data):
            arr = sym_from(data)
            src = data.dtype if isinstance(data, Sym) else 'float64'
            t = Sym(arr, 'torch', self._dtype_tag(dtype, {'float64': 'f64', 'float32': 'f32'}.get(src, src)),
                    device=device)
            return t
        if isinstance(data, DataT):
            raise AnalysisError('unsupported', 'torch.tensor of a data tensor')
        arr = np.asarray(data)
        return ConstT(arr, device)

    def _torch_zeros(self, *size, dtype=None, device=None, requires_grad=False, out=None):
        if len(size) == 1 and isinstance(size[0], (tuple, list)):
            size = tuple(size[0])
        return ops.zeros(size, self._dtype_tag(dtype, 'default'), device=device, requires_grad=requires_grad)

    def _full(self, size, fill_value, tag='default', device=None):
        """only the zero constant is a value of the linear domain; any other constant tensor on a data path is an
        offset (reported where it meets data), so it is not silently approximated here"""
        if isinstance(size, int):
            size = (size,)
        if is_const_scalar(fill_value) and fill_value == 0:
            return ops.zeros(tuple(size), tag, device=device)
        if is_const_scalar(fill_value):
            return ops.opaque(tuple(size), tag, 'const', 'constant(%r)' % (fill_value,), device=device)
        raise AnalysisError('unsupported', 'constant tensor filled with %r at %s' % (fill_value, self.interp.loc()))

    def _torch_empty(self, *size, dtype=None, device=None, requires_grad=False, **k):
        if len(size) == 1 and isinstance(size[0], (tuple, list)):
            size = tuple(size[0])
        return ops.opaque(tuple(size), self._dtype_tag(dtype, 'default'), 'uninit', 'uninitialised memory', device=device)

    def _empty_like(self, x, dtype=None, device=None, **k):
        if not isinstance(x, DataT):
            raise AnalysisError('unsupported', 'empty_like of %s' % type(x).__name__)
        return ops.opaque(x.shape, self._dtype_tag(dtype, x.dtype), 'uninit', 'uninitialised memory', device=x.device,
                          like_dims=x.dims)

    def _ones(self, *size, dtype=None, device=None, requires_grad=False, **k):
        if len(size) == 1 and isinstance(size[0], (tuple, list)):
            size = tuple(size[0])
        return self._full(size, 1, tag=self._dtype_tag(dtype, 'default'), device=device)

    def _ones_like(self, x, dtype=None, **k):
        if not isinstance(x, DataT):
            raise AnalysisError('unsupported', 'ones_like of %s' % type(x).__name__)
        return ops.opaque(x.shape, self._dtype_tag(dtype, x.dtype), 'const', 'constant(1)', device=x.device, like_dims=x.dims)

    def _xstack(self, ts, min_dim, axis):
        ts = list(self.iterate(ts))
        if any(not isinstance(t, DataT) or t.ndim < min_dim for t in ts):
            raise AnalysisError('unsupported', 'vstack / dstack of tensors with fewer than %d dims' % min_dim)
        return ops.cat(ts, axis)

    def _tile(self, x, reps):
        if not isinstance(x, DataT):
            raise AnalysisError('unsupported', 'tile of %s' % type(x).__name__)
        reps = [1] * (x.ndim - len(reps)) + list(reps)
        if len(reps) > x.ndim:
            raise AnalysisError('unsupported', 'tile adding leading dims')
        r = x
        for d, n in enumerate(reps):
            if n != 1:
                r = ops.cat([r] * n, d)
        return r

    def _zeros_like(self, x, dtype=None, device=None, requires_grad=False):
        if not isinstance(x, DataT):
            raise AnalysisError('unsupported', 'zeros_like of %s' % type(x).__name__)
        t = ops.zeros(x.shape, self._dtype_tag(dtype, x.dtype), device=x.device)
        return ops.retag_dims(t, x.dims)

    def _sqrt(self, x):
        if isinstance(x, DataT):
            from . import nonlin
            return nonlin.pointwise('sqrt', x)
        return self._np_sqrt(x)

    def _pow(self, x, n):
        return self.binop(operator.pow, x, n)

    def _reshape(self, x, shape):
        if isinstance(x, Sym):
            return x.reshape(*shape)
        return ops.reshape(x, shape)

    def _size(self, x=()):
        return TorchSize(tuple(x))

    def _get_default_dtype(self):
        self.default_dtype_reads.append(self.interp.loc())
        return self.DT_DEFAULT

    def _is_grad_enabled(self):
        self.interp.event('grad-mode-read')
        return self.grad_enabled and not self.interp.nograd

    def _conv1d(self, x, w, bias=None, stride=1, padding=0, dilation=1, groups=1):
        # conv1d on (N, C, L) = conv2d on (N, C, 1, L) with a (O, I, 1, k) kernel
        one = lambda v: v[0] if isinstance(v, (tuple, list)) else v
        x4 = x[:, :, None, :]
        w4 = w[:, :, None, :]
        y = ops.conv2d(x4, w4, bias, (1, one(stride)), (0, one(padding)), (1, one(dilation)), groups)
        return y[:, :, 0]

    def _conv_transpose1d(self, x, w, bias=None, stride=1, padding=0, output_padding=0, groups=1, dilation=1):
        one = lambda v: v[0] if isinstance(v, (tuple, list)) else v
        x4 = x[:, :, None, :]
        w4 = w[:, :, None, :]
        y = ops.conv_transpose2d(x4, w4, bias, (1, one(stride)), (0, one(padding)), (0, one(output_padding)), groups,
                                 (1, one(dilation)))
        return y[:, :, 0]

    def _ctx_manager(self, *a, **k):
        class _Null:
            pass
        return _Null()

    def _movedim(self, x, src, dst):
        n = x.ndim
        src, dst = src % n, dst % n
        order = [i for i in range(n) if i != src]
        order.insert(dst, src)
        return ops.permute(x, order)

    def _flatten(self, x, start_dim=0, end_dim=-1):
        n = x.ndim
        a, b = start_dim % n, end_dim % n
        shp = list(x.shape)
        size = 1
        for v in shp[a:b + 1]:
            size *= v
        return ops.reshape(x, shp[:a] + [size] + shp[b + 1:])

    def _repeat_interleave(self, x, repeats, dim=None):
        if dim is None or not isinstance(repeats, int):
            raise AnalysisError('unsupported', 'repeat_interleave form')
        if getattr(x, 'nl', False):
            from . import nonlin
            x = nonlin.rebase(x)
        d = dim % x.ndim
        n = x.dims[d][1]
        idxs = [k // repeats for k in range(n * repeats)]
        if x.dims[d][0] == 'S':
            r = ops.gather_axis(x, d, idxs)
            r.contig = True
            return r
        idx = [slice(None)] * x.ndim
        idx[d] = idxs
        return x[tuple(idx)]

    def _torch_chunk(self, x, chunks, dim=0):
        n = x.shape[dim]
        size = -(-n // chunks)
        return self._torch_split(x, size, dim)

    def _torch_split(self, x, size, dim=0):
        n = x.shape[dim]
        d = dim % x.ndim
        sizes = list(size) if isinstance(size, (list, tuple)) else [min(size, n - i) for i in range(0, n, size)]
        out, pos = [], 0
        for sz in sizes:
            idx = [slice(None)] * x.ndim
            idx[d] = slice(pos, pos + sz)
            out.append(x[tuple(idx)])
            pos += sz
        return tuple(out)

    def _torch_narrow(self, x, dim, start, length):
        idx = [slice(None)] * x.ndim
        idx[dim % x.ndim] = slice(start, start + length)
        return x[tuple(idx)]

    def _torch_finfo(self, dtype=None):
        from . import nonlin
        tag = dtype.tag if isinstance(dtype, DType) else 'default'
        self.interp.event('dtype-dependent-constant', dtype=tag)

        class FInfo:
            eps = nonlin.Param('eps[%s]' % tag)
            tiny = nonlin.Param('tiny[%s]' % tag)
            max = nonlin.Param('max[%s]' % tag)
            min = nonlin.Param('min[%s]' % tag)
        return FInfo()

    def _torch_arange(self, *a, dtype=None, device=None, **k):
        return ConstT(np.arange(*[ConstT._v(x) for x in a]), device)

    def _torch_remainder(self, a, b):
        if isinstance(a, ConstT) or isinstance(b, ConstT):
            return ConstT(np.mod(ConstT._v(a), ConstT._v(b)))
        raise AnalysisError('unknown-primitive', 'torch.remainder on data')

    def _torch_where(self, cond, a=None, b=None):
        if isinstance(cond, ConstT) and not isinstance(a, DataT) and not isinstance(b, DataT):
            return ConstT(np.where(cond.arr, ConstT._v(a), ConstT._v(b)), cond.device)
        from . import nonlin
        return nonlin.pointwise('where', *(x for x in (cond, a, b) if x is not None))

    def _torch_roll(self, x, shifts, dims=None):
        if not isinstance(x, DataT) or dims is None:
            raise AnalysisError('unsupported', 'torch.roll form')
        if isinstance(shifts, (tuple, list)):
            r = x
            for s, d in zip(shifts, dims):
                r = self._torch_roll(r, s, d)
            return r
        d = dims % x.ndim
        n = x.dims[d][1]
        if x.dims[d][0] != 'S':
            raise AnalysisError('unsupported', 'roll over an enumerated dim')
        return ops.gather_axis(x, d, [(k - shifts) % n for k in range(n)])

    def _torch_flip(self, x, dims):
        if isinstance(x, Sym):
            return x.like(np.flip(x.arr, axis=tuple(dims)))
        r = x
        if isinstance(dims, int):
            dims = [dims]
        for d in dims:
            d = d % x.ndim
            n = x.dims[d][1]
            if x.dims[d][0] != 'S':
                idx = [slice(None)] * x.ndim
                idx[d] = list(range(n - 1, -1, -1))
                r = r[tuple(idx)]
            else:
                r = ops.gather_axis(r, d, list(range(n - 1, -1, -1)))
        return r

    # --------------------------------------------------------------- numpy
    def _np_array(self, obj, dtype=None, copy=True, **k):
        if isinstance(obj, Sym) or contains_sym(obj):
            return Sym(sym_from(obj), 'np', 'float64')
        if isinstance(obj, DataT):
            raise AnalysisError('unsupported', 'np.array of a data tensor')
        return np.array(obj, dtype=dtype)

    def _np_asanyarray(self, obj, dtype=None):
        if isinstance(obj, Sym):
            return obj
        if contains_sym(obj):
            return Sym(sym_from(obj), 'np', 'float64')
        return np.asanyarray(obj, dtype=dtype)

    def _np_copy(self, a):
        if isinstance(a, Sym):
            return Sym(a.arr.copy(), 'np', a.dtype)
        return np.copy(a)

    def _np_outer(self, a, b):
        if contains_sym(a) or contains_sym(b):
            return Sym(sym_outer(a, b), 'np', 'float64')
        return np.outer(a, b)

    def _np_pad(self, a, pad_width, mode='constant', **k):
        if isinstance(a, Sym):
            raise AnalysisError('unsupported', 'np.pad of a filter array')
        return np.pad(a, pad_width, mode=mode, **k)

    def _np_repeat(self, a, repeats, axis=None):
        if isinstance(a, Sym):
            return Sym(np.repeat(a.arr, repeats, axis=axis), 'np', a.dtype)
        return np.repeat(a, repeats, axis=axis)

    def _np_tile(self, a, reps):
        if isinstance(a, Sym):
            return Sym(np.tile(a.arr, reps), 'np', a.dtype)
        return np.tile(a, reps)

    def _np_stack(self, arrays, axis=0):
        arrays = list(arrays)
        if any(isinstance(a, Sym) for a in arrays):
            return Sym(np.stack([sym_from(a) for a in arrays], axis=axis), 'np', 'float64')
        return np.stack(arrays, axis=axis)

    def _np_concatenate(self, arrays, axis=0):
        arrays = list(arrays)
        if any(isinstance(a, Sym) for a in arrays):
            return Sym(np.concatenate([sym_from(a) for a in arrays], axis=axis), 'np', 'float64')
        return np.concatenate(arrays, axis=axis)

    def _np_flip(self, a, axis=None):
        if isinstance(a, Sym):
            return Sym(np.flip(a.arr, axis=axis), 'np', a.dtype)
        return np.flip(a, axis=axis)

    def _np_transpose(self, a, axes=None):
        if isinstance(a, Sym):
            return Sym(np.transpose(a.arr, axes), 'np', a.dtype)
        return np.transpose(a, axes)

    def _np_atleast_2d(self, a):
        if isinstance(a, Sym) or contains_sym(a):
            return Sym(np.atleast_2d(sym_from(a)), 'np', 'float64')
        return np.atleast_2d(a)

    def _np_sqrt(self, x):
        if isinstance(x, (int, np.integer)) and not isinstance(x, bool):
            x = int(x)
            r = int(round(x ** 0.5))
            if r * r == x:
                return Q2(r)
            if x % 2 == 0:
                h = x // 2
                r = int(round(h ** 0.5))
                if r * r == h:
                    return Q2(0, r)
            return float(np.sqrt(x))
        if isinstance(x, Q2):
            if x.b == 0 and x.a.denominator == 1:
                return self._np_sqrt(int(x.a))
            return float(np.sqrt(float(x)))
        if isinstance(x, DataT):
            from . import nonlin
            return nonlin.pointwise('sqrt', x)
        if isinstance(x, Sym):
            raise AnalysisError('unsupported', 'sqrt of a filter array')
        return np.sqrt(x)

    def _np_load(self, f, *a, **k):
        if isinstance(f, npz.FileHandle):
            m = npz.load_mapping(f.path)
            self.npz_loads.append(f.path)
            self.interp.event('npz-load', path=f.path)
            return m
        raise AnalysisError('unsupported', 'numpy.load of %r' % (f,))

    # ---------------------------------------------------------------- pywt
    def _pywt_wavelet(self, name, *a, **k):
        if not isinstance(name, str):
            raise PyExc('TypeError', 'Wavelet name must be a string')
        if name in self.wavelets:
            return AbstractWavelet(name, self.wavelets[name])
        raise PyExc('ValueError', "Unknown wavelet name '%s'" % name)

    def _dwt_coeff_len(self, data_len, filter_len, mode='symmetric'):
        if not isinstance(mode, str) or mode not in PYWT_MODES:
            raise PyExc('ValueError', "Unknown mode name '%s'." % (mode,))
        if data_len < 1:
            raise PyExc('ValueError', 'Value of data_len must be greater than zero.')
        if filter_len < 1:
            raise PyExc('ValueError', 'Value of filter_len must be greater than zero.')
        if mode == 'periodization':
            return data_len // 2 + (1 if data_len % 2 else 0)
        return (data_len + filter_len - 1) // 2

    def _resource_stream(self, package, name):
        rel = package.split('.')
        path = os.path.join(self.interp.repo, *rel, name)
        if not os.path.isfile(path):
            raise PyExc('FileNotFoundError', 'No such file: %s' % path, loc=self.interp.loc())
        return npz.FileHandle(path)

    def _lru_cache(self, maxsize=128, typed=False):
        def deco(f):
            cache = {}
            libs = self

            def wrapper(*args, **kwargs):
                key = (args, tuple(sorted(kwargs.items())))
                try:
                    hash(key)
                except TypeError:
                    raise PyExc('TypeError', 'unhashable type in lru_cache key')
                if key not in cache:
                    cache[key] = libs.interp.call(f, list(args), kwargs)
                    libs.interp.event('memo-miss', fn=getattr(f, 'qualname', str(f)))
                else:
                    libs.interp.event('memo-hit', fn=getattr(f, 'qualname', str(f)))
                return cache[key]
            wrapper.cache = cache
            return wrapper
        if callable(maxsize) or isinstance(maxsize, PyFunc):
            f = maxsize
            maxsize = 128
            return deco(f)
        return deco
