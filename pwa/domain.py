"""E2 abstract domain ("sigflow").

Nothing here holds tensor *contents*.  A data tensor is described by

* its dims: each dim is enumerated ('E': batch, channel, band, orientation,
  real/imag ...) or spatial ('S'),
* for every index of the enumerated dims a *cell*: a sum of product terms
  ``base[bchan] . T_0 (x) T_1 ...`` with one *axis table* per spatial dim,
* an axis table: for every output position along that axis a formal linear form
  over (monomial in filter-tap symbols, position along an axis of the base
  tensor).  Filter taps are symbols ``(role, index)``; their values never
  appear.

Two programs denote the same real-arithmetic linear operator for every input of
that shape and every filter of that length iff their canonical cells are equal.
"""
from fractions import Fraction
import itertools
import numpy as np

from .errors import AnalysisError, PyExc


# ---------------------------------------------------------------- scalars
class Q2:
    """a + b*sqrt(2), a and b rational: the only constants the library uses."""
    __slots__ = ('a', 'b')

    def __init__(self, a=0, b=0):
        self.a = a if isinstance(a, Fraction) else Fraction(a)
        self.b = b if isinstance(b, Fraction) else Fraction(b)

    @staticmethod
    def of(x):
        if isinstance(x, Q2):
            return x
        if isinstance(x, bool):
            return Q2(int(x))
        if isinstance(x, (int, Fraction)):
            return Q2(x)
        if isinstance(x, (float, np.floating)):
            return Q2(Fraction(float(x)))
        if isinstance(x, np.integer):
            return Q2(int(x))
        raise AnalysisError('scalar', 'not a constant scalar: %r' % (x,))

    def __add__(self, o):
        o = Q2.of(o)
        return Q2(self.a + o.a, self.b + o.b)
    __radd__ = __add__

    def __neg__(self):
        return Q2(-self.a, -self.b)

    def __sub__(self, o):
        o = Q2.of(o)
        return Q2(self.a - o.a, self.b - o.b)

    def __rsub__(self, o):
        return Q2.of(o) - self

    def __mul__(self, o):
        if isinstance(o, (Poly,)):
            return o * self
        try:
            o = Q2.of(o)
        except AnalysisError:
            return NotImplemented
        return Q2(self.a * o.a + 2 * self.b * o.b, self.a * o.b + self.b * o.a)

    def __rmul__(self, o):
        try:
            return Q2.of(o) * self
        except AnalysisError:
            return NotImplemented

    def inv(self):
        d = self.a * self.a - 2 * self.b * self.b
        if d == 0:
            raise PyExc('ZeroDivisionError', 'division by zero')
        return Q2(self.a / d, -self.b / d)

    def __truediv__(self, o):
        try:
            return self * Q2.of(o).inv()
        except AnalysisError:
            return NotImplemented

    def __rtruediv__(self, o):
        try:
            return Q2.of(o) * self.inv()
        except AnalysisError:
            return NotImplemented

    def __pow__(self, n):
        if not isinstance(n, int) or n < 0:
            return NotImplemented
        r = Q2(1)
        for _ in range(n):
            r = r * self
        return r

    def __eq__(self, o):
        try:
            o = Q2.of(o)
        except AnalysisError:
            return NotImplemented
        return self.a == o.a and self.b == o.b

    def __hash__(self):
        return hash((self.a, self.b))

    def is_zero(self):
        return self.a == 0 and self.b == 0

    def __float__(self):
        return float(self.a) + float(self.b) * 2 ** 0.5

    def _cmp(self, o):
        return float(self) - float(Q2.of(o))

    def __lt__(self, o):
        return self._cmp(o) < 0

    def __le__(self, o):
        return self._cmp(o) <= 0

    def __gt__(self, o):
        return self._cmp(o) > 0

    def __ge__(self, o):
        return self._cmp(o) >= 0

    def __repr__(self):
        if self.b == 0:
            return str(self.a)
        if self.a == 0:
            return '%s*sqrt2' % self.b
        return '(%s+%s*sqrt2)' % (self.a, self.b)


ONE = Q2(1)
ZERO = Q2(0)


def is_const_scalar(x):
    return isinstance(x, (int, float, Fraction, Q2, np.integer, np.floating)) and not isinstance(x, bool)


# ------------------------------------------------------------ tap polynomials
class Poly:
    """Polynomial in filter-tap symbols.  terms: {mono: Q2}, mono = sorted tuple
    of symbols, symbol = (role, index), role = tuple of str."""
    __slots__ = ('terms', '_h')

    def __init__(self, terms=None):
        self.terms = terms or {}
        self._h = None

    @staticmethod
    def sym(role, idx):
        return Poly({((role, idx),): ONE})

    @staticmethod
    def const(c):
        c = Q2.of(c)
        return Poly({(): c} if not c.is_zero() else {})

    def is_zero(self):
        return not self.terms

    def __add__(self, o):
        if not isinstance(o, Poly):
            o = Poly.const(o)
        t = dict(self.terms)
        for m, c in o.terms.items():
            v = t.get(m)
            if v is None:
                t[m] = c
            else:
                v = v + c
                if v.is_zero():
                    del t[m]
                else:
                    t[m] = v
        return Poly(t)
    __radd__ = __add__

    def __neg__(self):
        return Poly({m: -c for m, c in self.terms.items()})

    def __sub__(self, o):
        if not isinstance(o, Poly):
            o = Poly.const(o)
        return self + (-o)

    def __rsub__(self, o):
        return Poly.const(o) - self

    def __mul__(self, o):
        if isinstance(o, Poly):
            t = {}
            for m1, c1 in self.terms.items():
                for m2, c2 in o.terms.items():
                    m = tuple(sorted(m1 + m2))
                    v = t.get(m)
                    c = c1 * c2
                    v = c if v is None else v + c
                    if v.is_zero():
                        t.pop(m, None)
                    else:
                        t[m] = v
            return Poly(t)
        try:
            c = Q2.of(o)
        except AnalysisError:
            return NotImplemented
        if c.is_zero():
            return Poly()
        return Poly({m: v * c for m, v in self.terms.items()})
    __rmul__ = __mul__

    def __truediv__(self, o):
        try:
            c = Q2.of(o)
        except AnalysisError:
            return NotImplemented
        return self * c.inv()

    def __eq__(self, o):
        if not isinstance(o, Poly):
            try:
                o = Poly.const(o)
            except AnalysisError:
                return NotImplemented
        return self.terms == o.terms

    def __hash__(self):
        if self._h is None:
            self._h = hash(frozenset(self.terms.items()))
        return self._h

    def single(self):
        """(mono, coef) if the polynomial is one monomial, else None"""
        if len(self.terms) == 1:
            return next(iter(self.terms.items()))
        return None

    def subst(self, fn):
        t = {}
        for m, c in self.terms.items():
            m2 = tuple(sorted(fn(s) for s in m))
            v = t.get(m2)
            v = c if v is None else v + c
            if v.is_zero():
                t.pop(m2, None)
            else:
                t[m2] = v
        return Poly(t)

    def __repr__(self):
        if not self.terms:
            return '0'
        out = []
        for m, c in sorted(self.terms.items(), key=lambda kv: repr(kv[0])):
            ms = '*'.join('%s[%d]' % ('.'.join(r), i) for r, i in m)
            if ms and c == ONE:
                out.append(ms)
            elif ms:
                out.append('%r*%s' % (c, ms))
            else:
                out.append(repr(c))
        return ' + '.join(out)


POLY_ONE = Poly.const(1)


class Prod:
    """Element of an outer-product kernel: u (varies along H) times v (along W)."""
    __slots__ = ('u', 'v')

    def __init__(self, u, v):
        self.u, self.v = u, v

    def __eq__(self, o):
        return isinstance(o, Prod) and self.u == o.u and self.v == o.v

    def __hash__(self):
        return hash((self.u, self.v))

    def __repr__(self):
        return '(%r)x(%r)' % (self.u, self.v)


# ------------------------------------------------------------- linear forms
class Form:
    """Immutable linear form {(mono, pos): Q2} over positions of one base axis."""
    __slots__ = ('d', '_h')

    def __init__(self, d):
        self.d = d
        self._h = None

    def __eq__(self, o):
        return self.d == o.d

    def __hash__(self):
        if self._h is None:
            self._h = hash(frozenset(self.d.items()))
        return self._h

    def is_zero(self):
        return not self.d

    def __repr__(self):
        if not self.d:
            return '0'
        out = []
        for (m, p), c in sorted(self.d.items(), key=lambda kv: (kv[0][1], repr(kv[0][0]))):
            ms = '*'.join('%s[%d]' % ('.'.join(r), i) for r, i in m)
            s = ('%s*' % ms if ms else '') + 'x[%d]' % p
            if c != ONE:
                s = '%r*%s' % (c, s)
            out.append(s)
        return ' + '.join(out)


ZERO_FORM = Form({})


def _acc(d, k, c):
    v = d.get(k)
    if v is None:
        d[k] = c
    else:
        v = v + c
        if v.is_zero():
            del d[k]
        else:
            d[k] = v


def form_add_into(acc, form, w=None):
    """acc += w * form, w a Poly (or None for 1)"""
    if w is None:
        for k, c in form.d.items():
            _acc(acc, k, c)
        return
    for wm, wc in w.terms.items():
        if not wm:
            for k, c in form.d.items():
                _acc(acc, k, c * wc)
        else:
            for (m, p), c in form.d.items():
                _acc(acc, (tuple(sorted(m + wm)) if m else wm, p), c * wc)


class AxisTable:
    """One spatial axis of one product term: forms[k] for every output position."""
    __slots__ = ('base_axis', 'forms', '_h')

    def __init__(self, base_axis, forms):
        self.base_axis = base_axis      # (base id, index of the S axis in the base)
        self.forms = tuple(forms)
        self._h = None

    def __len__(self):
        return len(self.forms)

    def __eq__(self, o):
        return self.base_axis == o.base_axis and (self.forms is o.forms or self.forms == o.forms)

    def __hash__(self):
        if self._h is None:
            self._h = hash((self.base_axis, self.forms))
        return self._h

    def is_zero(self):
        return all(f.is_zero() for f in self.forms)

    @staticmethod
    def identity(base_axis, n):
        return AxisTable(base_axis, [Form({((), k): ONE}) for k in range(n)])

    def gather(self, idxs):
        f = self.forms
        return AxisTable(self.base_axis, [ZERO_FORM if i is None else f[i] for i in idxs])

    def scale(self, c):
        c = Q2.of(c)
        if c == ONE:
            return self
        if c.is_zero():
            return AxisTable(self.base_axis, [ZERO_FORM] * len(self.forms))
        return AxisTable(self.base_axis, [Form({k: v * c for k, v in f.d.items()}) for f in self.forms])

    def add(self, o):
        if self.base_axis != o.base_axis or len(self.forms) != len(o.forms):
            raise AnalysisError('domain', 'adding incompatible axis tables')
        out = []
        for a, b in zip(self.forms, o.forms):
            if a.is_zero():
                out.append(b)
            elif b.is_zero():
                out.append(a)
            else:
                d = dict(a.d)
                form_add_into(d, b)
                out.append(Form(d))
        return AxisTable(self.base_axis, out)

    def conv(self, weights, stride=1, dilation=1, pad=(0, 0)):
        """cross-correlation with zero padding: out[k] = sum_t w[t]*padded[s*k + d*t]"""
        n = len(self.forms)
        L = len(weights)
        total = n + pad[0] + pad[1]
        span = dilation * (L - 1) + 1
        if total < span:
            raise PyExc('RuntimeError', 'Calculated padded input size per channel: (%d). Kernel size: (%d). '
                        'Kernel size can\'t be greater than actual input size' % (total, span))
        out_len = (total - span) // stride + 1
        out = []
        f = self.forms
        for k in range(out_len):
            d = {}
            for t in range(L):
                i = stride * k + dilation * t - pad[0]
                if 0 <= i < n and not f[i].is_zero():
                    form_add_into(d, f[i], weights[t])
            out.append(Form(d))
        return AxisTable(self.base_axis, out)

    def conv_transpose(self, weights, stride=1, padding=0, output_padding=0, dilation=1):
        """out[m] = sum_{k,t: m + p = s*k + d*t} w[t]*in[k]"""
        n = len(self.forms)
        L = len(weights)
        out_len = (n - 1) * stride - 2 * padding + dilation * (L - 1) + output_padding + 1
        if out_len <= 0:
            raise PyExc('RuntimeError', 'conv_transpose output size is non-positive')
        accs = [dict() for _ in range(out_len)]
        f = self.forms
        for k in range(n):
            if f[k].is_zero():
                continue
            for t in range(L):
                m = stride * k + dilation * t - padding
                if 0 <= m < out_len:
                    form_add_into(accs[m], f[k], weights[t])
        return AxisTable(self.base_axis, [Form(d) for d in accs])

    def subst(self, fn):
        out = []
        for f in self.forms:
            d = {}
            for (m, p), c in f.d.items():
                _acc(d, (tuple(sorted(fn(s) for s in m)), p), c)
            out.append(Form(d))
        return AxisTable(self.base_axis, out)


class Term:
    """coef * base[bchan] applied through one axis table per spatial dim."""
    __slots__ = ('base', 'bchan', 'tables', 'coef')

    def __init__(self, base, bchan, tables, coef=ONE):
        self.base, self.bchan, self.tables, self.coef = base, tuple(bchan), tuple(tables), coef

    def key(self):
        return (self.base.id, self.bchan)

    def with_table(self, i, t):
        tb = list(self.tables)
        tb[i] = t
        return Term(self.base, self.bchan, tb, self.coef)

    def scaled(self, c):
        return Term(self.base, self.bchan, self.tables, self.coef * Q2.of(c))

    def normalised(self):
        if self.coef == ONE or not self.tables:
            return self
        return Term(self.base, self.bchan, (self.tables[0].scale(self.coef),) + self.tables[1:], ONE)

    def is_zero(self):
        return self.coef.is_zero() or any(t.is_zero() for t in self.tables)

    def __repr__(self):
        return 'Term(%s%r, %s)' % (self.base.name, self.bchan, 'x'.join(str(len(t)) for t in self.tables))


def canon_cell(terms):
    """Merge terms that differ in at most one axis table; drop zeros; order-free."""
    terms = [t.normalised() for t in terms if not t.is_zero()]
    changed = True
    while changed and len(terms) > 1:
        changed = False
        n_ax = len(terms[0].tables)
        for ax in range(n_ax):
            groups = {}
            for t in terms:
                k = (t.base.id, t.bchan, tuple(tb for i, tb in enumerate(t.tables) if i != ax))
                groups.setdefault(k, []).append(t)
            if any(len(g) > 1 for g in groups.values()):
                new = []
                for g in groups.values():
                    if len(g) == 1:
                        new.append(g[0])
                    else:
                        tab = g[0].tables[ax]
                        for t in g[1:]:
                            tab = tab.add(t.tables[ax])
                        m = g[0].with_table(ax, tab)
                        if not m.is_zero():
                            new.append(m)
                terms = new
                changed = True
                break
        if n_ax == 0:
            groups = {}
            for t in terms:
                groups.setdefault((t.base.id, t.bchan), []).append(t)
            terms = []
            for g in groups.values():
                c = ZERO
                for t in g:
                    c = c + t.coef
                if not c.is_zero():
                    terms.append(Term(g[0].base, g[0].bchan, (), c))
    return frozenset((t.base.id, t.bchan, t.tables, t.coef) for t in terms)


def _lead(tb):
    for f in tb.forms:
        if f.d:
            k = min(f.d, key=lambda mp: (mp[1], mp[0]))
            return f.d[k]
    return None


def _unit_tables(t):
    """(coef, tables) with every table scaled to leading coefficient 1"""
    coef = t.coef
    tabs = []
    for tb in t.tables:
        c = _lead(tb)
        if c is None:
            return None
        if c != ONE:
            tb = tb.scale(c.inv())
            coef = coef * c
        tabs.append(tb)
    return coef, tuple(tabs)


def canon_cell_scaled(terms):
    """like canon_cell, and additionally independent of how a scalar is distributed over the axis tables"""
    items = []
    for t in terms:
        if t.is_zero():
            continue
        u = _unit_tables(t)
        if u is not None and not u[0].is_zero():
            items.append((t.base, t.bchan, u[1], u[0]))
    changed = True
    while changed and len(items) > 1:
        changed = False
        n_ax = len(items[0][2])
        for ax in range(n_ax):
            groups = {}
            for it in items:
                k = (it[0].id, it[1], tuple(tb for i, tb in enumerate(it[2]) if i != ax))
                groups.setdefault(k, []).append(it)
            if any(len(g) > 1 for g in groups.values()):
                new = []
                for g in groups.values():
                    if len(g) == 1:
                        new.append(g[0])
                        continue
                    tab = g[0][2][ax].scale(g[0][3])
                    for it in g[1:]:
                        tab = tab.add(it[2][ax].scale(it[3]))
                    tabs = list(g[0][2])
                    tabs[ax] = tab
                    u = _unit_tables(Term(g[0][0], g[0][1], tabs, ONE))
                    if u is not None and not u[0].is_zero():
                        new.append((g[0][0], g[0][1], u[1], u[0]))
                items = new
                changed = True
                break
    return frozenset((b.id, bc, tabs, c) for b, bc, tabs, c in items)


class Base:
    """An input tensor of the analysed function (or a re-based intermediate)."""
    _next = [0]

    def __init__(self, name, dims, dtype='in', role='arg', defn=None):
        self.id = Base._next[0]
        Base._next[0] += 1
        self.name, self.dims, self.dtype, self.role, self.defn = name, list(dims), dtype, role, defn

    def __repr__(self):
        return '<base %s %s>' % (self.name, self.dims)

    def tensor(self, origin='arg', requires_grad=False):
        edims = [s for k, s in self.dims if k == 'E']
        sdims = [s for k, s in self.dims if k == 'S']
        tabs = [AxisTable.identity((self.id, i), n) for i, n in enumerate(sdims)]
        cells = np.empty(tuple(edims), dtype=object)
        for idx in itertools.product(*[range(s) for s in edims]):
            cells[idx] = (Term(self, idx, tabs),)
        t = DataT(self.dims, cells, dtype=self.dtype, origin=origin)
        t.requires_grad = requires_grad
        t.base_of = self
        return t


class Storage:
    _next = [0]

    def __init__(self, origin, name=None):
        self.id = Storage._next[0]
        Storage._next[0] += 1
        self.origin = origin        # 'fresh' | 'arg' | 'buffer' | 'param' | 'global'
        self.name = name
        self.version = 0


class TorchSize(tuple):
    def numel(self):
        n = 1
        for s in self:
            n *= s
        return n

    def __getitem__(self, i):
        r = tuple.__getitem__(self, i)
        if isinstance(i, slice):
            return TorchSize(r)
        return r


def _broadcastable_2d(a, b):
    try:
        shp = np.broadcast_shapes(a.shape, b.shape)
    except ValueError:
        return False
    return len(shp) == 2


HOOKS = {'inplace': None, 'event': None, 'allow_nl': False}     # installed by fakelibs


class DataT:
    """Abstract torch data tensor."""

    def __init__(self, dims, cells, dtype='in', origin='fresh', storage=None, is_view=False, device='dev'):
        self.dims = [tuple(d) for d in dims]
        self.cells = cells
        self.dtype = dtype
        self.storage = storage if storage is not None else Storage(origin)
        self.is_view = is_view
        self.seen_version = self.storage.version
        self.requires_grad = False
        self.device = device
        self.contig = True
        self.base_of = None
        self.nl = False
        self._rebased = None
        assert cells.shape == tuple(s for k, s in self.dims if k == 'E'), (cells.shape, self.dims)

    # ---------------------------------------------------------- structure
    @property
    def shape(self):
        return TorchSize(s for _, s in self.dims)

    @property
    def ndim(self):
        return len(self.dims)

    def dim(self):
        return len(self.dims)

    def size(self, d=None):
        return self.shape if d is None else self.shape[d]

    def numel(self):
        return self.shape.numel()

    def e_axes(self):
        return [i for i, (k, _) in enumerate(self.dims) if k == 'E']

    def s_axes(self):
        return [i for i, (k, _) in enumerate(self.dims) if k == 'S']

    def like(self, dims, cells, view=False, dtype=None):
        t = DataT(dims, cells, dtype=self.dtype if dtype is None else dtype,
                  storage=self.storage if view else None, is_view=view, device=self.device)
        if not view:
            t.storage.origin = 'fresh'
        t.requires_grad = self.requires_grad
        return t

    def check_fresh_view(self):
        if self.is_view and self.seen_version != self.storage.version:
            raise AnalysisError('stale-view', 'a view is read after its storage was written in place '
                                '(write-through aliasing is not modelled)')

    def is_zero(self):
        if self.nl:
            return False
        return all(len(c) == 0 for c in self.cells.flat) if self.cells.size else True

    @staticmethod
    def allow_nl():
        return HOOKS['allow_nl']

    def map_cells(self, fn):
        out = np.empty(self.cells.shape, dtype=object)
        for idx in np.ndindex(*self.cells.shape):
            out[idx] = fn(self.cells[idx])
        return out

    # ----------------------------------------------------------- indexing
    def _expand_index(self, idx):
        if not isinstance(idx, tuple):
            idx = (idx,)
        n_real = sum(1 for i in idx if i is not None and i is not Ellipsis)
        if sum(1 for i in idx if i is Ellipsis) > 1:
            raise PyExc('IndexError', 'an index can only have a single ellipsis')
        if n_real > len(self.dims):
            raise PyExc('IndexError', 'too many indices for tensor of dimension %d' % len(self.dims))
        out = []
        for i in idx:
            if i is Ellipsis:
                out.extend([slice(None)] * (len(self.dims) - n_real))
            else:
                out.append(i)
        n_real2 = sum(1 for i in out if i is not None)
        out.extend([slice(None)] * (len(self.dims) - n_real2))
        return out

    def __getitem__(self, idx):
        self.check_fresh_view()
        items = self._expand_index(idx)
        new_dims = []
        e_index = []            # index applied to cells array (per E dim)
        s_ops = []              # (s position, positions list) for S dims
        d = 0
        s_pos = 0
        adv_s = []              # advanced (array) indices on S dims
        view = True
        new_e_positions = []    # where None inserts go (in terms of e_index list)
        for it in items:
            if it is None:
                new_dims.append(('E', 1))
                e_index.append(None)
                continue
            kind, size = self.dims[d]
            if isinstance(it, (bool, np.bool_)):
                raise AnalysisError('unknown-construct', 'boolean index')
            if isinstance(it, (int, np.integer)):
                i = int(it)
                if i < -size or i >= size:
                    raise PyExc('IndexError', 'index %d is out of bounds for dimension %d with size %d' % (i, d, size))
                i %= size
                if kind == 'E':
                    e_index.append(i)
                else:
                    if size != 1:
                        raise AnalysisError('unsupported', 'integer index into a spatial axis of size %d' % size)
                    s_ops.append((s_pos, 'drop', None))
                    s_pos += 1
            elif isinstance(it, slice):
                if it.step is not None and it.step <= 0:
                    raise PyExc('ValueError', 'step must be greater than zero')
                rng = range(size)[it]
                if kind == 'E':
                    e_index.append(it)
                    new_dims.append(('E', len(rng)))
                else:
                    s_ops.append((s_pos, 'take', list(rng)))
                    new_dims.append(('S', len(rng)))
                    s_pos += 1
            elif isinstance(it, (list, np.ndarray)) or hasattr(it, 'as_index'):
                arr = it.as_index() if hasattr(it, 'as_index') else np.asarray(it)
                if arr.dtype.kind == 'f':
                    # torch converts a float numpy index array to long (observed with torch 2.x: mypad's
                    # np.outer(xe, ones) index arrays work); non-integral values would be truncated
                    if not np.all(arr == np.floor(arr)):
                        raise AnalysisError('unsupported', 'non-integral float index array')
                    arr = arr.astype(np.int64)
                if arr.dtype.kind not in 'iu':
                    raise AnalysisError('unknown-construct', 'index array of dtype %s' % arr.dtype)
                view = False
                if kind == 'E':
                    if arr.ndim != 1:
                        raise AnalysisError('unsupported', 'multi-dimensional index on an enumerated dim')
                    a = [int(v) for v in arr]
                    for v in a:
                        if v < -size or v >= size:
                            raise PyExc('IndexError', 'index %d is out of bounds' % v)
                    e_index.append([v % size for v in a])
                    new_dims.append(('E', len(a)))
                else:
                    for v in arr.flat:
                        if v < -size or v >= size:
                            raise PyExc('IndexError', 'index %d is out of bounds for dimension %d with size %d'
                                        % (int(v), d, size))
                    adv_s.append((s_pos, arr % size, len(new_dims)))
                    new_dims.append(('S', None))
                    s_ops.append((s_pos, 'adv', None))
                    s_pos += 1
            else:
                raise AnalysisError('unknown-construct', 'index of type %s' % type(it).__name__)
            d += 1
        # resolve advanced indices on S dims
        if adv_s:
            if len(adv_s) == 1:
                sp, arr, nd = adv_s[0]
                if arr.ndim != 1:
                    raise AnalysisError('unsupported', 'multi-dimensional index array on one spatial axis')
                s_ops = [(p, 'take', [int(v) for v in arr]) if (p == sp and k == 'adv') else (p, k, a)
                         for p, k, a in s_ops]
                new_dims[nd] = ('S', len(arr))
            elif len(adv_s) == 2 and _broadcastable_2d(adv_s[0][1], adv_s[1][1]):
                (sp0, a0, nd0), (sp1, a1, nd1) = adv_s
                a0, a1 = np.broadcast_arrays(a0, a1)          # numpy / torch index broadcasting
                if not ((a0 == a0[:, :1]).all() and (a1 == a1[:1, :]).all()):
                    raise AnalysisError('unsupported', 'non-separable pair of index arrays')
                if nd1 != nd0 + 1:
                    raise AnalysisError('unsupported', 'index arrays on non-adjacent dims')
                rows = [int(v) for v in a0[:, 0]]
                cols = [int(v) for v in a1[0, :]]
                rep = {sp0: rows, sp1: cols}
                s_ops = [(p, 'take', rep[p]) if k == 'adv' else (p, k, a) for p, k, a in s_ops]
                new_dims[nd0] = ('S', len(rows))
                new_dims[nd1] = ('S', len(cols))
            else:
                raise AnalysisError('unsupported', 'advanced indexing pattern on spatial axes')
        # apply to cells
        cells = self.cells
        ei = []
        fancy = 0
        for x in e_index:
            if x is None:
                ei.append(np.newaxis)
            else:
                if isinstance(x, list):
                    fancy += 1
                ei.append(x)
        if fancy > 1:
            raise AnalysisError('unsupported', 'several index lists on enumerated dims')
        if fancy == 1:
            # apply the fancy index separately to keep numpy's axis order predictable
            pos = [i for i, x in enumerate(ei) if isinstance(x, list)][0]
            ax = sum(1 for x in ei[:pos] if x is not np.newaxis and not isinstance(x, int))
            pre = tuple(slice(None) if isinstance(x, list) else x for x in ei)
            lst = ei[pos]
            cells = cells[pre] if pre else cells
            cells = np.take(cells, lst, axis=ax)
        else:
            cells = cells[tuple(ei)] if ei else cells
        if not isinstance(cells, np.ndarray):
            c = np.empty((), dtype=object)
            c[()] = cells
            cells = c
        take = {p: a for p, k, a in s_ops if k == 'take'}
        drop = [p for p, k, a in s_ops if k == 'drop']
        full = {p: None for p in take}
        if self.nl and (take or drop):
            ident = all(take.get(p) == list(range(self.dims[self.s_axes()[p]][1])) for p in take)
            if drop or not ident:
                # a spatial re-indexing of a non-linear field: continue linearly over a fresh base
                from . import nonlin
                return nonlin.rebase(self)[idx]
        if take or drop:
            n_s = len(self.s_axes())
            ident = all(take.get(p) == list(range(self.dims[self.s_axes()[p]][1])) for p in take)
            if drop or not ident:
                cache = {}

                def fix(terms):
                    out = []
                    for t in terms:
                        tabs = []
                        for p in range(n_s):
                            tb = t.tables[p]
                            if p in drop:
                                raise AnalysisError('unsupported', 'dropping a spatial axis')
                            if p in take:
                                k = (id(tb), p)
                                g = cache.get(k)
                                if g is None:
                                    g = (tb.gather(take[p]), tb)     # keep tb alive: id() is the key
                                    cache[k] = g
                                tb = g[0]
                            tabs.append(tb)
                        out.append(Term(t.base, t.bchan, tabs, t.coef))
                    return tuple(out)
                out_cells = np.empty(cells.shape, dtype=object)
                for i2 in np.ndindex(*cells.shape):
                    out_cells[i2] = fix(cells[i2])
                cells = out_cells
            else:
                cells = cells.copy()
        else:
            cells = cells.copy()
        r = self.like(new_dims, cells, view=view)
        r.contig = False
        r.nl = self.nl
        return r

    def __setitem__(self, idx, val):
        self.check_fresh_view()
        if self.nl:
            raise AnalysisError('unsupported', 'subscript store into a non-linear tensor')
        if isinstance(val, DataT) and val.nl:
            from . import nonlin
            val = nonlin.rebase(val)
        if HOOKS['inplace']:
            HOOKS['inplace'](self, 'setitem')
        items = self._expand_index(idx)
        if any(i is None for i in items):
            raise AnalysisError('unsupported', 'None in a subscript store')
        e_sel = []
        s_sel = []
        for (kind, size), it in zip(self.dims, items):
            if isinstance(it, (int, np.integer)):
                i = int(it)
                if i < -size or i >= size:
                    raise PyExc('IndexError', 'index out of range in store')
                if kind == 'S':
                    sel = [i % size]
                    s_sel.append((sel, True))
                else:
                    e_sel.append(([i % size], True))
            elif isinstance(it, slice):
                rng = list(range(size)[it])
                (s_sel if kind == 'S' else e_sel).append((rng, False))
            else:
                raise AnalysisError('unsupported', 'advanced index in a subscript store')
        region_dims = []
        ei = iter(e_sel)
        si = iter(s_sel)
        for kind, size in self.dims:
            sel, dropped = next(ei) if kind == 'E' else next(si)
            if not dropped:
                region_dims.append((kind, len(sel)))
        # the value
        if isinstance(val, DataT):
            v = val.broadcast_to_dims(region_dims)
            if val.dtype != self.dtype and not val.is_zero():
                if HOOKS['event']:
                    HOOKS['event']('dtype-cast-on-store', src=val.dtype, dst=self.dtype)
        elif is_const_scalar(val) and Q2.of(val).is_zero():
            v = None
        else:
            raise AnalysisError('unsupported', 'storing a non-tensor / non-zero constant into a tensor')
        s_sizes = [s for k, s in self.dims if k == 'S']
        full_s = [sel == list(range(n)) and not dr for (sel, dr), n in zip(s_sel, s_sizes)]
        part = [i for i, f in enumerate(full_s) if not f]
        e_ranges = [sel for sel, _ in e_sel]
        e_kept = [i for i, (_, dr) in enumerate(e_sel) if not dr]
        new_cells = self.cells.copy()
        for eidx in itertools.product(*e_ranges) if e_ranges else [()]:
            old = self.cells[eidx] if eidx else self.cells[()]
            kept = []
            for t in old:
                if not part:
                    continue                      # whole cell overwritten
                if len(part) == 1:
                    p = part[0]
                    tb = t.tables[p]
                    sel = set(s_sel[p][0])
                    forms = [ZERO_FORM if i in sel else f for i, f in enumerate(tb.forms)]
                    nt = t.with_table(p, AxisTable(tb.base_axis, forms))
                    if not nt.is_zero():
                        kept.append(nt)
                else:
                    # a genuine rectangle: representable only if the term vanishes on it along some axis
                    ok = False
                    for p in part:
                        sel = s_sel[p][0]
                        if all(t.tables[p].forms[i].is_zero() for i in sel):
                            ok = True
                            break
                    if not ok:
                        if len(part) != 2:
                            raise AnalysisError('unsupported', 'store into a box that overlaps existing content')
                        # T_a (x) T_b with the rectangle R_a x R_b cleared  =  T_a|~R_a (x) T_b  +  T_a|R_a (x) T_b|~R_b
                        pa, pb = part
                        ra, rb = set(s_sel[pa][0]), set(s_sel[pb][0])
                        ta, tb_ = t.tables[pa], t.tables[pb]
                        out_a = AxisTable(ta.base_axis, [ZERO_FORM if i in ra else f for i, f in enumerate(ta.forms)])
                        in_a = AxisTable(ta.base_axis, [f if i in ra else ZERO_FORM for i, f in enumerate(ta.forms)])
                        out_b = AxisTable(tb_.base_axis, [ZERO_FORM if i in rb else f for i, f in enumerate(tb_.forms)])
                        for nt in (t.with_table(pa, out_a), t.with_table(pa, in_a).with_table(pb, out_b)):
                            if not nt.is_zero():
                                kept.append(nt)
                        continue
                    kept.append(t)
            add = []
            if v is not None:
                vidx = tuple(sel.index(e) for (sel, dr), e in zip(e_sel, eidx) if not dr)
                for t in (v.cells[vidx] if vidx else v.cells[()]):
                    tabs = []
                    vs = 0
                    for p, ((sel, dr), n) in enumerate(zip(s_sel, s_sizes)):
                        if dr:
                            raise AnalysisError('unsupported', 'integer store index on a spatial axis')
                        tb = t.tables[vs]
                        vs += 1
                        forms = [ZERO_FORM] * n
                        for j, pos in enumerate(sel):
                            forms[pos] = tb.forms[j]
                        tabs.append(AxisTable(tb.base_axis, forms))
                    add.append(Term(t.base, t.bchan, tabs, t.coef))
            if eidx:
                new_cells[eidx] = tuple(kept) + tuple(add)
            else:
                new_cells[()] = tuple(kept) + tuple(add)
        self.cells = new_cells
        self.storage.version += 1
        self.seen_version = self.storage.version

    # -------------------------------------------------------- broadcasting
    def retag_units(self, dims):
        """The enumerated / spatial typing of an axis of extent 1 is a bookkeeping choice (moving a unit axis does
        not move data).  Returns self re-typed to `dims` when the two typings differ only at unit axes and have the
        same number of spatial axes, else None."""
        sd = list(self.dims)
        dims = [tuple(d) for d in dims]
        if len(sd) != len(dims) or [s for _, s in sd] != [s for _, s in dims]:
            return None
        if sd == dims:
            return self
        if any(a[0] != b[0] and a[1] != 1 for a, b in zip(sd, dims)):
            return None
        s_self = [i for i, (k, _) in enumerate(sd) if k == 'S']
        s_tgt = [i for i, (k, _) in enumerate(dims) if k == 'S']
        if len(s_self) != len(s_tgt) or getattr(self, 'nl', False):
            return None
        # match spatial axes: non-unit ones sit at the same position; unit ones are paired in order
        unit_self = [i for i in s_self if sd[i][1] == 1]
        unit_tgt = [i for i in s_tgt if dims[i][1] == 1]
        if len(unit_self) != len(unit_tgt):
            return None
        pair = dict(zip(unit_tgt, unit_self))
        order = []
        for i in s_tgt:
            j = i if dims[i][1] != 1 else pair[i]
            order.append(s_self.index(j))
        cells = np.empty(tuple(s for k, s in dims if k == 'E'), dtype=object)
        flat = list(self.cells.reshape(-1)) if self.cells.size else []
        if cells.size != len(flat):
            return None
        for n, idx in enumerate(np.ndindex(*cells.shape)):
            cell = flat[n]
            if order != list(range(len(order))):
                cell = tuple(Term(t.base, t.bchan, [t.tables[o] for o in order], t.coef) for t in cell)
            cells[idx] = cell
        r = DataT(dims, cells, dtype=self.dtype, storage=self.storage, is_view=self.is_view, device=self.device)
        r.requires_grad = self.requires_grad
        r.contig = self.contig
        r.seen_version = getattr(self, 'seen_version', 0)
        return r

    def broadcast_to_dims(self, dims):
        """numpy-style broadcast of self to the given dims (E dims may be 1; S dims must agree)."""
        if len(self.dims) == len(dims) and list(self.dims) != [tuple(d) for d in dims]:
            r = self.retag_units(dims)
            if r is not None:
                return r
        sd = list(self.dims)
        if len(sd) > len(dims):
            # allow leading size-1 dims to be dropped
            extra = len(sd) - len(dims)
            if all(s == 1 and k == 'E' for k, s in sd[:extra]):
                cells = self.cells.reshape(self.cells.shape[extra:])
                sd = sd[extra:]
                t = self.like(sd, cells)
                return t.broadcast_to_dims(dims)
            raise PyExc('RuntimeError', 'shape mismatch: cannot broadcast %s to %s' % (self.shape, [s for _, s in dims]))
        pad = len(dims) - len(sd)
        # a spatial axis of extent 1 broadcasts like any other: every position reads the single sample
        for i, ((k, s_), (tk, ts)) in enumerate(zip(sd, dims[pad:])):
            if k == 'S' and tk == 'S' and s_ == 1 and ts > 1:
                idx = [slice(None)] * len(sd)
                idx[i] = np.zeros(ts, dtype=np.int64)
                return self[tuple(idx)].broadcast_to_dims(dims)
        sd = [('E', 1)] * pad + sd
        cells = self.cells.reshape((1,) * pad + self.cells.shape)
        tgt_e = []
        for (k, s), (tk, ts) in zip(sd, dims):
            if k == 'S' or tk == 'S':
                if k == 'E' and s == 1 and tk == 'S':
                    raise AnalysisError('unsupported', 'broadcast of an enumerated dim over a spatial axis')
                if s != ts and s == 1:
                    raise AnalysisError('unsupported', 'broadcast of a unit axis across the enumerated / spatial '
                                        'typing (%s to %s)' % (self.dims, list(dims)))
                if s != ts:
                    raise PyExc('RuntimeError', 'The size of tensor a (%s) must match the size of tensor b (%s)' % (s, ts))
                if k != tk:
                    raise AnalysisError('unsupported', 'an enumerated axis is aligned with a spatial axis of the '
                                        'same extent (%s vs %s)' % (self.dims, list(dims)))
            else:
                if s != ts and s != 1:
                    raise PyExc('RuntimeError', 'The size of tensor a (%s) must match the size of tensor b (%s)' % (s, ts))
                tgt_e.append(ts)
        cells = np.broadcast_to(cells, tuple(tgt_e))
        return self.like(dims, np.array(cells, dtype=object) if cells.size else cells.copy())

    @staticmethod
    def broadcast_pair(a, b):
        da, db = list(a.dims), list(b.dims)
        n = max(len(da), len(db))
        da = [('E', 1)] * (n - len(da)) + da
        db = [('E', 1)] * (n - len(db)) + db
        out = []
        for (ka, sa), (kb, sb) in zip(da, db):
            if ka == 'S' and kb == 'S':
                if sa != sb and 1 not in (sa, sb):
                    raise PyExc('RuntimeError', 'The size of tensor a (%d) must match the size of tensor b (%d)'
                                % (sa, sb))
                out.append(('S', max(sa, sb)))
            elif ka == 'S' or kb == 'S':
                s_e = sb if ka == 'S' else sa
                s_s = sa if ka == 'S' else sb
                if s_e != 1:
                    if s_e != s_s and s_s != 1:
                        raise PyExc('RuntimeError', 'The size of tensor a (%d) must match the size of tensor b (%d)'
                                    % (sa, sb))
                    raise AnalysisError('unsupported', 'enumerated dim aligned with a spatial axis')
                raise AnalysisError('unsupported', 'broadcast of a size-1 dim over a spatial axis')
            else:
                if sa != sb and sa != 1 and sb != 1:
                    raise PyExc('RuntimeError', 'The size of tensor a (%d) must match the size of tensor b (%d)'
                                % (sa, sb))
                out.append(('E', max(sa, sb) if min(sa, sb) != 0 else 0))
        return out
