"""Session helpers shared by the property drivers: build an interpreter over a
repository tree, construct modules abstractly, call entry points, compare results."""
import hashlib
import os
import time

import numpy as np

from .pyinterp import Interp, PyInstance, BoundMethod, PyFunc, PyClass
from .fakelibs import Libs, ArgList, user_filter, AbstractWavelet
from .domain import Base, DataT, Term, AxisTable, canon_cell, Q2
from .errors import AnalysisError, PyExc, Finding
from .ops import DomainViolation

PKG = 'pytorch_wavelets'

# every length of a PyWavelets discrete wavelet is available as wavelet 'wL'
ALL_LENS = list(range(2, 104, 2))


def wname(L):
    return 'w%d' % L


class Outcome:
    """result of one abstract call"""

    def __init__(self, kind, value=None, exc=None):
        self.kind, self.value, self.exc = kind, value, exc     # 'ok' | 'raises' | 'violation'

    def __repr__(self):
        return 'Outcome(%s, %s)' % (self.kind, self.exc if self.kind != 'ok' else type(self.value).__name__)


class Session:
    def __init__(self, repo, extra_wavelets=None):
        self.repo = os.path.abspath(repo)
        wl = {wname(L): L for L in ALL_LENS}
        if extra_wavelets:
            wl.update(extra_wavelets)
        self.libs = Libs(wavelets=wl)
        self.interp = Interp(self.repo, self.libs, PKG)
        self.counters = {'calls': 0, 'statements': 0}

    # --------------------------------------------------------------- access
    def module(self, dotted):
        return self.interp.load_module(dotted)

    def get(self, dotted, name):
        m = self.module(dotted)
        if name not in m.ns:
            raise AnalysisError('anchor-missing', '%s.%s' % (dotted, name))
        return m.ns[name]

    def construct(self, dotted, clsname, *args, **kwargs):
        cls = self.get(dotted, clsname)
        if not isinstance(cls, PyClass):
            raise AnalysisError('anchor-missing', '%s.%s is not a class' % (dotted, clsname))
        inst = self.interp.call(cls, list(args), kwargs)
        inst.frozen = True
        return inst

    def method(self, inst, name):
        return self.interp.getattr(inst, name)

    def call(self, f, *args, **kwargs):
        self.counters['calls'] += 1
        return self.interp.call(f, list(args), kwargs)

    def run(self, f, *args, **kwargs):
        """call and classify"""
        n_find = len(self.interp.findings)
        depth = len(self.interp.stack)
        try:
            v = self.call(f, *args, **kwargs)
            return Outcome('ok', v)
        except PyExc as e:
            del self.interp.stack[depth:]
            self.interp.nograd = 0
            return Outcome('raises', exc=e)
        except DomainViolation as e:
            del self.interp.stack[depth:]
            self.interp.nograd = 0
            return Outcome('violation', exc=e)
        except AnalysisError as e:
            # annotate with the location and re-raise
            if not getattr(e, 'loc', None):
                e.loc = self.interp.loc() if self.interp.stack else None
            del self.interp.stack[depth:]
            self.interp.nograd = 0
            raise

    def take_findings(self):
        f = self.interp.findings
        self.interp.findings = []
        return f

    def take_events(self):
        e = self.interp.events
        self.interp.events = []
        return e

    def file_digests(self):
        out = {}
        for m in self.interp.modules.values():
            out[os.path.relpath(m.path, self.repo)] = hashlib.sha256(m.src.encode()).hexdigest()[:16]
        return out


def base_tensor(name, nb, c, spatial, extra_e=(), requires_grad=False, origin='arg', dtype='in'):
    dims = [('E', nb), ('E', c)] + [('E', e) for e in extra_e] + [('S', s) for s in spatial]
    b = Base(name, dims, dtype=dtype)
    return b, b.tensor(origin=origin, requires_grad=requires_grad)


def base_tensor_dims(name, dims, requires_grad=False, origin='arg', dtype='in'):
    b = Base(name, dims, dtype=dtype)
    return b, b.tensor(origin=origin, requires_grad=requires_grad)


def cells_equal(a, b):
    if canon_cell(a) == canon_cell(b):
        return True
    # slow path, only on a mismatch: the same operator may distribute a scalar differently over its axis tables
    from .domain import canon_cell_scaled
    return canon_cell_scaled(a) == canon_cell_scaled(b)


def expected_cell(base, bchan, tables, coef=1):
    return (Term(base, bchan, tables, Q2.of(coef)),)


def describe_table_diff(impl, ref):
    """human-readable classification of how two axis tables differ"""
    if len(impl) != len(ref):
        return 'length', 'length %d, reference %d' % (len(impl), len(ref))
    n = len(ref)
    for s in range(-8, 9):
        if s == 0:
            continue
        ok = cnt = 0
        for k in range(n):
            if 0 <= k + s < n:
                cnt += 1
                if impl.forms[k] == ref.forms[k + s]:
                    ok += 1
        if cnt and ok == cnt:
            return 'offset', 'output positions shifted by %d against the reference' % s
    diff = [k for k in range(n) if impl.forms[k] != ref.forms[k]]
    pos_i = set(p for k in diff for (_, p) in impl.forms[k].d)
    pos_r = set(p for k in diff for (_, p) in ref.forms[k].d)
    taps_i = set(m for k in diff for (m, _) in impl.forms[k].d)
    taps_r = set(m for k in diff for (m, _) in ref.forms[k].d)
    if taps_i != taps_r:
        return 'filter', 'different filter taps at positions %s..' % diff[:4]
    if len(diff) < n:
        edge = all(k < n // 3 + 1 or k >= n - n // 3 - 1 for k in diff)
        return ('boundary' if edge else 'values'), 'differs at output positions %s (of %d)' % (diff[:6], n)
    return 'values', 'differs at all %d output positions' % n


def one_term(cell):
    """the single product term of a canonical cell or None"""
    c = canon_cell(cell)
    if len(c) != 1:
        return None
    return next(iter(c))
