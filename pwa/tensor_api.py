"""Attribute / method table of abstract torch tensors (data tensors and filter tensors)."""
import operator
import numpy as np

from . import ops
from .domain import DataT, Q2, HOOKS, TorchSize, is_const_scalar
from .sym import Sym
from .errors import AnalysisError, PyExc


def _install():
    def _bin(fn):
        def m(self, o):
            try:
                return fn(self, o)
            except AnalysisError as e:
                if e.kind == 'scalar':
                    return NotImplemented
                raise
        return m
    DataT.__add__ = _bin(lambda a, b: ops.add(a, b))
    DataT.__radd__ = _bin(lambda a, b: ops.add(b, a))
    DataT.__sub__ = _bin(lambda a, b: ops.add(a, b, -1))
    DataT.__rsub__ = _bin(lambda a, b: ops.add(b, a, -1))
    DataT.__mul__ = _bin(lambda a, b: ops.mul(a, b))
    DataT.__rmul__ = _bin(lambda a, b: ops.mul(b, a))
    DataT.__truediv__ = _bin(lambda a, b: ops.div(a, b))
    DataT.__rtruediv__ = _bin(lambda a, b: ops.div(b, a))
    DataT.__neg__ = lambda a: ops.neg(a)
    DataT.__pos__ = lambda a: a

    def _pow(a, n):
        if is_const_scalar(n) and n == 1:
            return a
        from . import nonlin
        return nonlin.pointwise('pow', a, n)
    DataT.__pow__ = _pow

    def _inplace(opname, fn):
        def m(self, o):
            self.check_fresh_view()
            if HOOKS['inplace']:
                HOOKS['inplace'](self, opname)
            r = fn(self, o)
            if not isinstance(r, DataT):
                return r
            if r.shape != self.shape:
                raise PyExc('RuntimeError', "output with shape %s doesn't match the broadcast shape %s"
                            % (list(self.shape), list(r.shape)))
            self.dims = r.dims
            self.cells = r.cells
            self.nl = getattr(r, 'nl', False)
            self.storage.version += 1
            self.seen_version = self.storage.version
            return self
        return m
    DataT.__iadd__ = _inplace('+=', lambda a, b: ops.add(a, b))
    DataT.__isub__ = _inplace('-=', lambda a, b: ops.add(a, b, -1))
    DataT.__imul__ = _inplace('*=', lambda a, b: ops.mul(a, b))
    DataT.__itruediv__ = _inplace('/=', lambda a, b: ops.div(a, b))
    DataT.__len__ = lambda self: self.shape[0] if self.ndim else (_ for _ in ()).throw(PyExc('TypeError', 'len() of a 0-d tensor'))
    DataT.__bool__ = lambda self: (_ for _ in ()).throw(ops.DomainViolation('R-LIN', 'truth value of a data tensor'))
    DataT.__iter__ = None


_install()


def _shape_args(a):
    if len(a) == 1 and isinstance(a[0], (tuple, list)):
        return list(a[0])
    return list(a)


def get(libs, t, name):
    """attribute `name` of data tensor t"""
    I = libs.interp
    if name == 'shape':
        return t.shape
    if name == 'ndim':
        return t.ndim
    if name == 'device':
        from .fakelibs import Device
        return Device('of-input') if t.device in (None, 'dev') else t.device
    if name == 'dtype':
        from .fakelibs import DType
        return DType(t.dtype)
    if name == 'requires_grad':
        I.event('requires-grad-read')
        return bool(t.requires_grad)
    if name == 'is_leaf':
        return True
    if name == 'is_cuda':
        return False
    if name == 'T':
        return ops.permute(t, list(range(t.ndim))[::-1])
    if name == 'mT':
        return ops.transpose(t, -2, -1)
    if name == 'data':
        return t
    if name == 'grad_fn':
        return None
    m = _METHODS.get(name)
    if m is not None:
        return lambda *a, **k: m(libs, t, *a, **k)
    if name.endswith('_') and not name.startswith('_'):
        base = name[:-1]

        def inplace(*a, **k):
            if HOOKS['inplace']:
                HOOKS['inplace'](t, name)
            if base == 'zero':
                t.cells = t.map_cells(lambda c: ())
                t.storage.version += 1
                t.seen_version = t.storage.version
                return t
            if base in ('add', 'sub', 'mul', 'div'):
                opf = {'add': operator.iadd, 'sub': operator.isub, 'mul': operator.imul, 'div': operator.itruediv}[base]
                other = a[0]
                if 'alpha' in k and k['alpha'] != 1:
                    if base not in ('add', 'sub'):
                        raise PyExc('TypeError', '%s() got an unexpected keyword argument alpha' % name)
                    other = libs.binop(operator.mul, other, k['alpha'])
                extra = set(k) - {'alpha'}
                if extra or len(a) != 1:
                    raise AnalysisError('unknown-primitive', 'Tensor.%s with arguments %s %s' % (name, len(a), sorted(k)))
                return opf(t, other)
            if base == 'copy':
                src = a[0]
                if not isinstance(src, DataT):
                    raise AnalysisError('unknown-primitive', 'Tensor.copy_ from %s' % type(src).__name__)
                r = src.broadcast_to_dims(t.dims)
                t.cells = r.cells.copy()
                t.nl = getattr(r, 'nl', False)
                t.storage.version += 1
                t.seen_version = t.storage.version
                return t
            if base == 'fill':
                if not (is_const_scalar(a[0]) and a[0] == 0):
                    from .ops import DomainViolation
                    raise DomainViolation('R-LIN', 'a tensor on the data path is filled with the constant %r' % (a[0],))
                t.cells = t.map_cells(lambda c: ())
                t.storage.version += 1
                t.seen_version = t.storage.version
                return t
            if base == 'requires_grad':
                t.requires_grad = bool(a[0]) if a else True
                return t
            raise AnalysisError('unknown-primitive', 'Tensor.%s' % name)
        return inplace
    raise AnalysisError('unknown-primitive', 'Tensor.%s at %s' % (name, I.loc()))


def _new_zeros(libs, t, *size, dtype=None, device=None, requires_grad=False):
    size = _shape_args(size)
    return ops.zeros(size, libs._dtype_tag(dtype, t.dtype), device=t.device, requires_grad=requires_grad)


def _view(libs, t, *shape):
    return ops.reshape(t, _shape_args(shape), is_view=True)


def _reshape(libs, t, *shape):
    return ops.reshape(t, _shape_args(shape))


def _contiguous(libs, t, *a, **k):
    t.check_fresh_view()
    r = t.like(t.dims, t.cells.copy(), view=True)      # may alias when already contiguous
    r.nl = getattr(t, 'nl', False)
    r.contig = True
    return r


def _clone(libs, t, *a, **k):
    r = t.like(t.dims, t.cells.copy())
    r.nl = getattr(t, 'nl', False)
    r.contig = True
    return r


def _cast(tag):
    def m(libs, t, *a, **k):
        r = t.like(t.dims, t.cells.copy(), dtype=tag)
        r.nl = getattr(t, 'nl', False)
        libs.interp.event('dtype-cast', src=t.dtype, dst=tag)
        return r
    return m


def _to(libs, t, *a, **k):
    from .fakelibs import DType
    dt = k.get('dtype')
    for x in a:
        if isinstance(x, DType):
            dt = x
    if dt is None:
        return t
    return _cast(dt.tag)(libs, t)


def _nonlin(name):
    def m(libs, t, *a, **k):
        from . import nonlin
        return nonlin.pointwise(name, t, *a, **k)
    return m


def _lin_reduce(name):
    """sum / mean along enumerated dims is a linear combination of cells; anything else is a reduction over contents"""
    def m(libs, t, dim=None, keepdim=False, **k):
        from . import nonlin
        if dim is None or k or getattr(t, 'nl', False):
            return nonlin.reduce(name, t)
        dims = [dim] if isinstance(dim, int) else list(dim)
        dims = sorted({d % t.ndim for d in dims}, reverse=True)
        if any(t.dims[d][0] != 'E' for d in dims):
            return nonlin.reduce(name, t)
        r = t
        for d in dims:
            n = r.dims[d][1]
            parts = ops.unbind(r, d)
            acc = parts[0]
            for q in parts[1:]:
                acc = ops.add(acc, q)
            if name == 'mean':
                acc = ops.div(acc, n)
            r = acc if not keepdim else _unsqueeze(libs, acc, d)
        return r
    return m


def _reduce(name):
    def m(libs, t, *a, **k):
        from . import nonlin
        return nonlin.reduce(name, t, *a, **k)
    return m


def _size(libs, t, d=None):
    return t.shape if d is None else t.shape[d]


def _unsqueeze(libs, t, d):
    n = t.ndim + 1
    d = d % n
    idx = [slice(None)] * t.ndim
    idx.insert(d, None)
    return t[tuple(idx)]


def _squeeze(libs, t, d=None):
    idx = []
    for i, (k, s) in enumerate(t.dims):
        if s == 1 and (d is None or i == d % t.ndim):
            idx.append(0)
        else:
            idx.append(slice(None))
    return t[tuple(idx)]


def _expand(libs, t, *sizes):
    sizes = _shape_args(sizes)
    if len(sizes) < t.ndim:
        raise PyExc('RuntimeError', 'expand: the number of sizes must be >= the number of dims')
    pad = len(sizes) - t.ndim
    dims = []
    for i, s in enumerate(sizes):
        if i < pad:
            dims.append(('E', s))
        else:
            k, cur = t.dims[i - pad]
            dims.append((k, cur if s == -1 else s))
    return t.broadcast_to_dims(dims)


def _expand_as(libs, t, o):
    return t.broadcast_to_dims(o.dims)


_METHODS = {
    'new_zeros': _new_zeros,
    'view': _view,
    'reshape': _reshape,
    'contiguous': _contiguous,
    'clone': _clone,
    'detach': lambda libs, t: t,
    'transpose': lambda libs, t, a, b: ops.transpose(t, a, b),
    'permute': lambda libs, t, *o: ops.permute(t, _shape_args(o)),
    'unbind': lambda libs, t, dim=0: ops.unbind(t, dim),
    'size': _size,
    'dim': lambda libs, t: t.ndim,
    'numel': lambda libs, t: t.numel(),
    'float': _cast('f32'), 'double': _cast('f64'), 'half': _cast('f16'), 'bfloat16': _cast('bf16'),
    'to': _to, 'type': _to,
    'cpu': lambda libs, t: t, 'cuda': lambda libs, t, *a: t,
    'abs': _nonlin('abs'), 'sqrt': _nonlin('sqrt'), 'pow': _nonlin('pow'), 'exp': _nonlin('exp'),
    'log': _nonlin('log'), 'sign': _nonlin('sign'), 'clamp': _nonlin('clamp'), 'relu': _nonlin('relu'),
    'sum': _lin_reduce('sum'), 'mean': _lin_reduce('mean'), 'max': _reduce('max'), 'min': _reduce('min'),
    'norm': _reduce('norm'), 'std': _reduce('std'), 'var': _reduce('var'), 'any': _reduce('any'),
    'all': _reduce('all'), 'item': _reduce('item'),
    'unsqueeze': _unsqueeze, 'squeeze': _squeeze, 'expand_as': _expand_as,
    'is_floating_point': lambda libs, t: True,
    'is_complex': lambda libs, t: False,
    'new_full': lambda libs, t, size, fill_value, dtype=None, **k: libs._full(size, fill_value, tag=libs._dtype_tag(dtype, t.dtype), device=t.device),
    'tile': lambda libs, t, *reps: libs._tile(t, _shape_args(reps)),
    'unflatten': lambda libs, t, dim, sizes: ops.reshape(t, list(t.shape[:dim % t.ndim]) + list(sizes) + list(t.shape[dim % t.ndim + 1:])),
    'square': lambda libs, t: libs.binop(operator.pow, t, 2),
    'rsqrt': lambda libs, t: libs.binop(operator.pow, t, -0.5),
    'reciprocal': lambda libs, t: libs.binop(operator.pow, t, -1),
    'neg': lambda libs, t: libs.binop(operator.mul, t, -1),
    'add': lambda libs, t, o, alpha=1: libs.binop(operator.add, t, o if alpha == 1 else libs.binop(operator.mul, o, alpha)),
    'sub': lambda libs, t, o, alpha=1: libs.binop(operator.sub, t, o if alpha == 1 else libs.binop(operator.mul, o, alpha)),
    'mul': lambda libs, t, o: libs.binop(operator.mul, t, o),
    'div': lambda libs, t, o: libs.binop(operator.truediv, t, o),
    'true_divide': lambda libs, t, o: libs.binop(operator.truediv, t, o),
    'swapaxes': lambda libs, t, a, b: ops.transpose(t, a, b),
    'swapdims': lambda libs, t, a, b: ops.transpose(t, a, b),
    'view_as': lambda libs, t, o: _view(libs, t, *list(o.shape)),
    'reshape_as': lambda libs, t, o: _reshape(libs, t, *list(o.shape)),
    'select': lambda libs, t, dim, index: t[tuple([slice(None)] * (dim % t.ndim) + [index])],
    'is_contiguous': lambda libs, t: t.contig,
    'movedim': lambda libs, t, src, dst: libs._movedim(t, src, dst),
    'flatten': lambda libs, t, start_dim=0, end_dim=-1: libs._flatten(t, start_dim, end_dim),
    'expand': lambda libs, t, *sizes: _expand(libs, t, *sizes),
    'new_empty': lambda libs, t, *size, dtype=None, **k: ops.opaque(_shape_args(size), libs._dtype_tag(dtype, t.dtype), 'uninit', 'uninitialised memory', device=t.device),
    'new_ones': lambda libs, t, *size, dtype=None, **k: ops.opaque(_shape_args(size), libs._dtype_tag(dtype, t.dtype), 'const', 'constant(1)', device=t.device),
    'repeat_interleave': lambda libs, t, repeats, dim=None: libs._repeat_interleave(t, repeats, dim),
    'chunk': lambda libs, t, chunks, dim=0: libs._torch_chunk(t, chunks, dim),
    'split': lambda libs, t, size, dim=0: libs._torch_split(t, size, dim),
    'narrow': lambda libs, t, dim, start, length: libs._torch_narrow(t, dim, start, length),
    'type_as': lambda libs, t, o: _cast(o.dtype)(libs, t),
    'flip': lambda libs, t, *dims: libs._torch_flip(t, _shape_args(dims)),
    'roll': lambda libs, t, shifts, dims=None: libs._torch_roll(t, shifts, dims),
    'index_select': lambda libs, t, dim, index: ops.index_select(t, dim, index),
    'repeat': lambda libs, t, *a: (_ for _ in ()).throw(AnalysisError('unsupported', 'Tensor.repeat on a data tensor')),
}


def get_sym(libs, s, name):
    """attribute `name` of a filter array / filter tensor"""
    from .fakelibs import Device, DType
    if name == 'device':
        return Device('filter:%s' % (s.device,))
    if name == 'dtype':
        return DType(s.dtype) if s.lib == 'torch' else np.dtype('float64')
    if name in ('shape', 'ndim', 'T', 'requires_grad'):
        return getattr(s, name)
    if name == 'size':
        return s.size
    if name == 'data':
        return s
    if name in ('float', 'double', 'half'):
        tag = {'float': 'f32', 'double': 'f64', 'half': 'f16'}[name]

        def cast():
            r = Sym(s.arr, s.lib, tag, device=s.device)
            return r
        return cast
    if name in ('ravel', 'flatten', 'copy', 'reshape', 'view', 'transpose', 'permute', 'contiguous', 'clone',
                'detach', 'repeat', 'squeeze', 'unsqueeze', 'to', 'type_as', 'astype', 'numel', 'dim', 'tobytes', 'tolist', 'flip'):
        return getattr(s, name)
    if name == 'new_zeros':
        raise AnalysisError('unsupported', 'new_zeros on a filter tensor')
    raise AnalysisError('unknown-primitive', 'filter array attribute %s at %s' % (name, libs.interp.loc()))
