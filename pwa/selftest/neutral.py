"""python -m pwa neutral [-j N]: run the checks named in neutral/<id>/meta.json against a scratch copy of the
repository with that behaviour-preserving refactoring applied; every named check must stay silent (exit 0)."""
import json
import os
import shutil
import subprocess
import sys
import tempfile
import time
from concurrent.futures import ThreadPoolExecutor

VERIF = os.path.dirname(os.path.dirname(os.path.dirname(os.path.abspath(__file__))))


def run_one(nid, repo, jobs):
    d = tempfile.mkdtemp(prefix='pwa_neutral_')
    t0 = time.time()
    try:
        meta = json.load(open(os.path.join(VERIF, 'neutral', nid, 'meta.json')))
        shutil.copytree(os.path.join(repo, 'pytorch_wavelets'), os.path.join(d, 'pytorch_wavelets'))
        subprocess.run(['git', 'init', '-q', '.'], cwd=d, check=True)
        r = subprocess.run(['git', 'apply', '--whitespace=nowarn', os.path.join(VERIF, 'neutral', nid, 'patch.diff')],
                           cwd=d, capture_output=True, text=True)
        if r.returncode:
            return dict(id=nid, ok=False, why='patch does not apply: ' + r.stderr[:200], results={})
        env = dict(os.environ, PWA_EVIDENCE_DIR=os.path.join(d, 'ev'), PYTHONPATH=VERIF)
        results = {}
        for p in meta['checks_that_must_stay_silent']:
            rr = subprocess.run([sys.executable, '-m', 'pwa', 'check', p, '--tier', 'quick', '--repo', d, '-j', str(jobs)],
                                cwd=VERIF, env=env, capture_output=True, text=True)
            first = next((l.strip()[:220] for l in rr.stdout.splitlines() if l.startswith(('  ', 'ANALYSIS-ERROR'))), '')
            results[p] = dict(exit=rr.returncode, first=first if rr.returncode else '')
        alarms = [p for p, v in results.items() if v['exit'] == 1]
        errors = [p for p, v in results.items() if v['exit'] not in (0, 1)]
        return dict(id=nid, ok=not alarms and not errors, false_alarms=alarms, analysis_errors=errors, results=results,
                    why=('false alarm in %s' % alarms if alarms else ('analysis error in %s' % errors if errors else '')),
                    wall_s=round(time.time() - t0, 1))
    finally:
        shutil.rmtree(d, ignore_errors=True)


def main(a):
    ids = sorted(os.listdir(os.path.join(VERIF, 'neutral')))
    if a.only:
        ids = [i for i in ids if a.only in i]
    par = max(1, min(4, a.jobs // 4))
    with ThreadPoolExecutor(par) as ex:
        out = list(ex.map(lambda s: run_one(s, a.repo, max(2, a.jobs // par)), ids))
    for r in out:
        print('%-6s %s' % (r['id'], 'silent (%d checks)' % len(r['results']) if r['ok'] else 'NOT SILENT: ' + r['why']))
    bad = [r['id'] for r in out if not r['ok']]
    if not a.only:
        json.dump({'refactorings': len(out), 'not_silent': bad,
                   'false_alarms': sum(len(r.get('false_alarms', [])) for r in out), 'results': out},
                  open(os.path.join(VERIF, 'neutral_report.json'), 'w'), indent=1)
    print('NEUTRAL: %d of %d refactorings left every named check silent' % (len(out) - len(bad), len(out)))
    return 2 if bad else 0
