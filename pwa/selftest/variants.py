"""Self-test corpus: the checker is tested both ways.

BREAKING variants: one small, realistic edit each; the named checks must report a VIOLATION (exit 1; not an
analysis error).  NEUTRAL variants: behaviour-preserving rewrites; the named checks must stay silent (exit 0).
Every edit is (file relative to the package, old text, new text); the old text must occur exactly once.
"""
LL = 'dwt/lowlevel.py'
T1 = 'dwt/transform1d.py'
T2 = 'dwt/transform2d.py'
DL = 'dtcwt/lowlevel.py'
TF = 'dtcwt/transform_funcs.py'
D2 = 'dtcwt/transform2d.py'
CO = 'dtcwt/coeffs.py'
SL = 'scatternet/lowlevel.py'
SY = 'scatternet/layers.py'
UT = 'utils.py'

BREAKING = [
    ('afb1d-pad-split-swapped', ['C01'], [(LL, "pad = (0, 0, p//2, (p+1)//2) if d == 2 else (p//2, (p+1)//2, 0, 0)",
                                           "pad = (0, 0, (p+1)//2, p//2) if d == 2 else ((p+1)//2, p//2, 0, 0)")]),
    ('afb1d-per-roll-off-by-one', ['C01', 'C17'], [(LL, "        x = roll(x, -L2, dim=d)\n", "        x = roll(x, -L2+1, dim=d)\n")]),
    ('prep-filt-flip-dropped', ['C01'], [(LL, "    h0 = np.array(h0[::-1]).ravel()\n", "    h0 = np.array(h0).ravel()\n")]),
    ('analysis-uses-rec-filters', ['C01'], [(T1, "h0, h1 = wave.dec_lo, wave.dec_hi", "h0, h1 = wave.rec_lo, wave.rec_hi")]),
    ('afb2d-band-order', ['C01'], [(LL, "        y = afb1d(lohi, h0_col, h1_col, mode=mode, dim=2)\n        s = y.shape\n        y = y.reshape(s[0], -1, 4, s[-2], s[-1])\n        low = y[:,:,0].contiguous()\n        highs = y[:,:,1:].contiguous()",
                                         "        y = afb1d(lohi, h0_col, h1_col, mode=mode, dim=2)\n        s = y.shape\n        y = y.reshape(s[0], -1, 4, s[-2], s[-1])\n        low = y[:,:,0].contiguous()\n        highs = y[:,:,[2, 1, 3]].contiguous()")]),
    ('pyramid-coarsest-first', ['C01'], [(T2, "            yh.append(high)\n", "            yh.insert(0, high)\n")]),
    ('sfb1d-per-roll', ['C10', 'C02', 'C17'], [(LL, "        y = roll(y, 1-L//2, dim=dim)\n", "        y = roll(y, -L//2, dim=dim)\n")]),
    ('sfb1d-fold-width', ['C10', 'C02'], [(LL, "            y[:,:,:,:L-2] = y[:,:,:,:L-2] + y[:,:,:,N:N+L-2]", "            y[:,:,:,:L-3] = y[:,:,:,:L-3] + y[:,:,:,N:N+L-3]")]),
    ('inverse-level-order', ['C10'], [(T1, "        for x1 in highs[::-1]:", "        for x1 in highs:")]),
    ('sfb2d-band-exchange', ['C10'], [(LL, "        lh, hl, hh = torch.unbind(highs, dim=2)\n        lo = sfb1d(low, lh, g0_col, g1_col, mode=mode, dim=2)\n        hi = sfb1d(hl, hh, g0_col, g1_col, mode=mode, dim=2)\n        y = sfb1d(lo, hi, g0_row, g1_row, mode=mode, dim=3)\n        return y",
                                          "        hl, lh, hh = torch.unbind(highs, dim=2)\n        lo = sfb1d(low, lh, g0_col, g1_col, mode=mode, dim=2)\n        hi = sfb1d(hl, hh, g0_col, g1_col, mode=mode, dim=2)\n        y = sfb1d(lo, hi, g0_row, g1_row, mode=mode, dim=3)\n        return y")]),
    ('unpad-removed', ['C10', 'C02'], [(T1, "            if x0.shape[-1] > x1.shape[-1]:", "            if False:")]),
    ('afb1d-backward-guard-index', ['C05'], [(LL, "        dx = None\n        if ctx.needs_input_grad[0]:\n            mode = ctx.mode\n            h0, h1 = ctx.saved_tensors",
                                                 "        dx = None\n        if ctx.needs_input_grad[1]:\n            mode = ctx.mode\n            h0, h1 = ctx.saved_tensors")]),
    ('sfb1d-backward-bands-swapped', ['C05'], [(LL, "            dlow = dx[:, ::2, 0].contiguous()\n            dhigh = dx[:, 1::2, 0].contiguous()",
                                                   "            dlow = dx[:, 1::2, 0].contiguous()\n            dhigh = dx[:, ::2, 0].contiguous()")]),
    ('afb2d-backward-mode-dropped', ['C05'], [(LL, "            dx = sfb1d(lo, hi, h0_row, h1_row, mode=mode, dim=3)\n            if dx.shape[-2] > ctx.shape[-2]",
                                                  "            dx = sfb1d(lo, hi, h0_row, h1_row, dim=3)\n            if dx.shape[-2] > ctx.shape[-2]")]),
    ('atrous-pad-swapped', ['C13'], [(LL, "pad = (0, 0, L2-dilation, L2) if d == 2 else (L2-dilation, L2, 0, 0)", "pad = (0, 0, L2, L2-dilation) if d == 2 else (L2, L2-dilation, 0, 0)")]),
    ('swt-dilation-linear', ['C13'], [(T2, "lowlevel.afb2d_atrous(ll, filts, self.mode, 2**j)", "lowlevel.afb2d_atrous(ll, filts, self.mode, 2*j+1)")]),
    ('swt-next-level-from-wrong-band', ['C13'], [(T2, "            ll = y[:,:,0]\n", "            ll = y[:,:,1]\n")]),
    ('nonsep-lh-hl-exchanged', ['C19'], [(LL, "    lh = np.outer(h1_col, h0_row)\n    hl = np.outer(h0_col, h1_row)\n    hh = np.outer(h1_col, h1_row)\n    filts = np.stack([ll[None,::-1,::-1]",
                                             "    hl = np.outer(h1_col, h0_row)\n    lh = np.outer(h0_col, h1_row)\n    hh = np.outer(h1_col, h1_row)\n    filts = np.stack([ll[None,::-1,::-1]")]),
    ('nonsep-synthesis-roll-axes', ['C19'], [(LL, "        ll = roll(roll(ll, 1-Ly//2, dim=2), 1-Lx//2, dim=3)", "        ll = roll(roll(ll, 1-Lx//2, dim=2), 1-Ly//2, dim=3)")]),
    ('module-row-col-binding', ['C14'], [(T2, "                ll, self.h0_row, self.h1_row, self.h0_col, self.h1_col, mode)", "                ll, self.h0_col, self.h1_col, self.h0_row, self.h1_row, mode)")]),
    ('coldfilt-phase-pick', ['C03'], [(DL, "        X = torch.cat((X[:,:,xe[2::2]], X[:,:,xe[3::2]]), dim=1)", "        X = torch.cat((X[:,:,xe[3::2]], X[:,:,xe[2::2]]), dim=1)")]),
    ('qshift-tree-order-at-call', ['C03'], [(TF, "        lh = coldfilt(lo, h1b, h1a, True, mode)\n        hl = coldfilt(hi, h0b, h0a, False, mode)\n        hh = coldfilt(hi, h1b, h1a, True, mode)\n        del lo, hi",
                                                "        lh = coldfilt(lo, h1a, h1b, True, mode)\n        hl = coldfilt(hi, h0b, h0a, False, mode)\n        hh = coldfilt(hi, h1b, h1a, True, mode)\n        del lo, hi")]),
    ('q2c-sign', ['C03'], [(DL, "    return ((a-d, b+c), (a+d, b-c))", "    return ((a+d, b+c), (a-d, b-c))")]),
    ('orientation-slots-exchanged', ['C03'], [(TF, "        [deg15r, deg45r, deg75r, deg105r, deg135r, deg165r], dim=o_dim)", "        [deg15r, deg135r, deg75r, deg105r, deg45r, deg165r], dim=o_dim)")]),
    ('lowpass-extension-mod', ['C03', 'C04'], [(D2, "            if r % 4 != 0:\n                low = torch.cat((low[:,:,0:1], low, low[:,:,-1:]), dim=2)", "            if r % 4 == 1:\n                low = torch.cat((low[:,:,0:1], low, low[:,:,-1:]), dim=2)")]),
    ('c2q-quadrant-sign', ['C11', 'C04'], [(DL, "    x3 = w1i - w2i\n", "    x3 = w1i + w2i\n")]),
    ('inverse-crop-one-sided', ['C11', 'C04'], [(D2, "                    if r != r1 * 2:\n                        low = low[:,:,1:-1]\n                    if c != c1 * 2:\n                        low = low[:,:,:,1:-1]\n            elif",
                                                   "                    if r != r1 * 2:\n                        low = low[:,:,:-2]\n                    if c != c1 * 2:\n                        low = low[:,:,:,1:-1]\n            elif")]),
    ('inverse-slots-exchanged', ['C11'], [(TF, "    diag = torch.index_select(reals, o_dim, tensor([1, 4], device=dev))\n    vertic = torch.index_select(reals, o_dim, tensor([2, 3], device=dev))",
                                              "    diag = torch.index_select(reals, o_dim, tensor([2, 3], device=dev))\n    vertic = torch.index_select(reals, o_dim, tensor([1, 4], device=dev))")]),
    ('fwd-j2plus-backward-no-tree-swap', ['C06'], [(TF, "        h0a, h0b = h0b, h0a\n        h1a, h1b = h1b, h1a\n        dx = None", "        dx = None")]),
    ('inv-j1-backward-skips-highs', ['C06'], [(TF, "            dl, dhr, dhi = fwd_j1(dy, g0, g1, False, o_dim, mode)\n            dh = torch.stack((dhr, dhi), dim=ri_dim)\n\n        return dl, dh, None, None, None, None, None\n",
                                                  "            dl, dhr, dhi = fwd_j1(dy, g1, g0, False, o_dim, mode)\n            dh = torch.stack((dhr, dhi), dim=ri_dim)\n\n        return dl, dh, None, None, None, None, None\n")]),
    ('layout-table-cell', ['C12'], [(TF, "    elif o_dim == 3:\n        h_dim = 2\n        w_dim = 4", "    elif o_dim == 3:\n        h_dim = 2\n        w_dim = 3")]),
    ('scales-shifted', ['C12'], [(D2, "            if self.include_scale[j]:\n                scales[j] = low\n\n        if True in self.include_scale:",
                                      "            if self.include_scale[j]:\n                scales[j-1] = low\n\n        if True in self.include_scale:")]),
    ('caller-list-reversed-in-place', ['C15'], [(T2, "        yl, yh = coeffs\n        ll = yl\n        mode = lowlevel.mode_to_int(self.mode)\n\n        # Do a multilevel inverse transform\n        for h in yh[::-1]:",
                                                    "        yl, yh = coeffs\n        ll = yl\n        mode = lowlevel.mode_to_int(self.mode)\n        yh.reverse()\n\n        # Do a multilevel inverse transform\n        for h in yh:")]),
    ('in-place-scale-of-input', ['C15'], [(D2, "        low, highs = coeffs\n        J = len(highs)\n", "        low, highs = coeffs\n        J = len(highs)\n        if low is not None and low.shape != torch.Size([]):\n            low *= 1.0\n")]),
    ('torch-global-state', ['C15'], [(T1, "        assert x.ndim == 3, \"Can only handle 3d inputs (N, C, L)\"\n        highs = []", "        assert x.ndim == 3, \"Can only handle 3d inputs (N, C, L)\"\n        torch.set_default_dtype(x.dtype)\n        highs = []")]),
    ('none-level-default-dtype', ['C16'], [(T2, "ll.shape[-1], device=ll.device, dtype=ll.dtype)", "ll.shape[-1], device=ll.device)")]),
    ('data-cast-to-float', ['C16'], [(LL, "            x = mypad(x, pad=pad, mode=mode)\n            lohi = F.conv2d(x, h, stride=s, groups=C)", "            x = mypad(x, pad=pad, mode=mode)\n            lohi = F.conv2d(x.float(), h, stride=s, groups=C)")]),
    ('affine-offset', ['C07'], [(LL, "    h = torch.cat([h0, h1] * C, dim=0)\n\n    if mode == 'per' or mode == 'periodization':\n        if x.shape[dim] % 2 == 1:", "    h = torch.cat([h0, h1] * C, dim=0)\n    x = x + 1e-8\n\n    if mode == 'per' or mode == 'periodization':\n        if x.shape[dim] % 2 == 1:")]),
    ('weight-replication-order', ['C07', 'C01'], [(LL, "    h = torch.cat([h0, h1] * C, dim=0)\n\n    if mode == 'per' or mode == 'periodization':\n        if x.shape[dim] % 2 == 1:", "    h = torch.cat([h0] * C + [h1] * C, dim=0)\n\n    if mode == 'per' or mode == 'periodization':\n        if x.shape[dim] % 2 == 1:")]),
    ('abs-in-rowfilter', ['C07', 'C03'], [(DL, "        X = F.conv2d(X[:,:,:,xe], h.repeat(ch,1,1,1), groups=ch)", "        X = F.conv2d(X[:,:,:,xe].abs(), h.repeat(ch,1,1,1), groups=ch)")]),
    ('loader-keys-permuted', ['C18', 'C03'], [(CO, "            return _load_from_file(name, ('h0o', 'g0o', 'h1o', 'g1o'))", "            return _load_from_file(name, ('h0o', 'g0o', 'g1o', 'h1o'))")]),
    ('scat-bias-not-subtracted', ['C08'], [(SL, "            ctx.save_for_backward(h0o, h1o, z, z)\n\n        r = r - bias\n", "            ctx.save_for_backward(h0o, h1o, z, z)\n\n        r = r + bias\n")]),
    ('scat-stack-order', ['C08'], [(SL, "            Z = torch.cat((ll[:, None], r), dim=1)\n\n        return Z\n\n    @staticmethod\n    def backward(ctx, dZ):\n        dX = None\n        mode = ctx.mode\n\n        if ctx.needs_input_grad[0]:\n            #  h0o, h1o, θ = ctx.saved_tensors",
                                        "            Z = torch.cat((r, ll[:, None]), dim=1)\n\n        return Z\n\n    @staticmethod\n    def backward(ctx, dZ):\n        dX = None\n        mode = ctx.mode\n\n        if ctx.needs_input_grad[0]:\n            #  h0o, h1o, θ = ctx.saved_tensors")]),
    ('scat-backward-upsample-gain', ['C09'], [(SL, "            ll = 1/4 * F.interpolate(dYl, scale_factor=2, mode=\"nearest\")\n            reals = dr * drdx\n", "            ll = 1/2 * F.interpolate(dYl, scale_factor=2, mode=\"nearest\")\n            reals = dr * drdx\n")]),
    ('scat-saved-phases-swapped', ['C09'], [(SL, "            h0o, h1o, drdx, drdy = ctx.saved_tensors\n            # Use the special properties", "            h0o, h1o, drdy, drdx = ctx.saved_tensors\n            # Use the special properties")]),
    ('scat-j2-no-tree-swap', ['C09'], [(SL, "            h0a_t = h0b\n            h0b_t = h0a\n            h1a_t = h1b\n            h1b_t = h1a\n\n            # Level 1 backward (time reversed biorthogonal analysis filters)\n            if ctx.combine_colour:\n                ds0, ds1_j1, ds1_j2, ds2_j1 = \\\n                    dZ[:,:3], dZ[:,3:9], dZ[:,9:15], dZ[:,15:]\n                ds1_j2 = ds1_j2[:, :, None]\n\n                ds1_j1 = 1/4",
                                            "            h0a_t = h0a\n            h0b_t = h0b\n            h1a_t = h1b\n            h1b_t = h1a\n\n            # Level 1 backward (time reversed biorthogonal analysis filters)\n            if ctx.combine_colour:\n                ds0, ds1_j1, ds1_j2, ds2_j1 = \\\n                    dZ[:,:3], dZ[:,3:9], dZ[:,9:15], dZ[:,15:]\n                ds1_j2 = ds1_j2[:, :, None]\n\n                ds1_j1 = 1/4")]),
    ('smoothmag-denominator-after-bias', ['C09'], [(SL, "        r = torch.sqrt(x**2 + y**2 + b**2)\n        if x.requires_grad or y.requires_grad:\n            dx = x/r\n            dy = y/r",
                                                       "        r = torch.sqrt(x**2 + y**2 + b**2) - b\n        if x.requires_grad or y.requires_grad:\n            dx = x/r\n            dy = y/r")]),
]



def _perturb(key, idx, delta):
    def f(d, np):
        a = d[key].copy()
        a.ravel()[idx] += delta
        d[key] = a
        return d
    return f


def _swap(k1, k2):
    def f(d, np):
        d[k1], d[k2] = d[k2].copy(), d[k1].copy()
        return d
    return f


def _resave(d, np):
    return {k: np.ascontiguousarray(v) for k, v in d.items()}


BREAKING += [
    ('table-tap-perturbed', ['C18'], [('npz', 'dtcwt/data/qshift_a.npz', _perturb('h0a', 2, 1e-6))]),
    ('table-trees-exchanged', ['C18'], [('npz', 'dtcwt/data/qshift_c.npz', _swap('h1a', 'h1b'))]),
    ('level1-table-asymmetric', ['C18'], [('npz', 'dtcwt/data/legall.npz', _perturb('h0o', 0, 1e-4))]),
]

NEUTRAL = [
    ('rename-locals-afb1d', ['C01', 'C05', 'C07'], [(LL, "    L = h0.numel()\n    L2 = L // 2\n    shape = [1,1,1,1]\n    shape[d] = L\n    # If h aren't in the right shape, make them so\n    if h0.shape != tuple(shape):\n        h0 = h0.reshape(*shape)\n    if h1.shape != tuple(shape):\n        h1 = h1.reshape(*shape)\n    h = torch.cat([h0, h1] * C, dim=0)\n\n    if mode == 'per' or mode == 'periodization':\n        if x.shape[dim] % 2 == 1:\n            if d == 2:\n                x = torch.cat((x, x[:,:,-1:]), dim=2)\n            else:\n                x = torch.cat((x, x[:,:,:,-1:]), dim=3)\n            N += 1\n        x = roll(x, -L2, dim=d)",
                                                          "    L = h0.numel()\n    half = L // 2\n    L2 = half\n    shp = [1,1,1,1]\n    shp[d] = L\n    # If h aren't in the right shape, make them so\n    if h0.shape != tuple(shp):\n        h0 = h0.reshape(*shp)\n    if h1.shape != tuple(shp):\n        h1 = h1.reshape(*shp)\n    h = torch.cat([h0, h1] * C, dim=0)\n\n    if mode == 'per' or mode == 'periodization':\n        if x.shape[dim] % 2 == 1:\n            if d == 2:\n                x = torch.cat((x, x[:,:,-1:]), dim=2)\n            else:\n                x = torch.cat((x, x[:,:,:,-1:]), dim=3)\n            N += 1\n        x = roll(x, -half, dim=d)")]),
    ('roll-via-torch-roll', ['C01', 'C05', 'C17', 'C19'], [(LL, "        x = roll(x, -L2, dim=d)\n", "        x = torch.roll(x, -L2, dims=d)\n")]),
    ('fold-with-augmented-assignment', ['C01', 'C05', 'C15'], [(LL, "            lohi[:,:,:,:L2] = lohi[:,:,:,:L2] + lohi[:,:,:,N2:N2+L2]", "            lohi[:,:,:,:L2] += lohi[:,:,:,N2:N2+L2]")]),
    ('mode-table-as-dict', ['C01', 'C10'], [(LL, "def mode_to_int(mode):\n    if mode == 'zero':\n        return 0\n    elif mode == 'symmetric':\n        return 1\n    elif mode == 'per' or mode == 'periodization':\n        return 2\n    elif mode == 'constant':\n        return 3\n    elif mode == 'reflect':\n        return 4\n    elif mode == 'replicate':\n        return 5\n    elif mode == 'periodic':\n        return 6\n    else:\n        raise ValueError(\"Unkown pad type: {}\".format(mode))",
                                                "def mode_to_int(mode):\n    table = {'zero': 0, 'symmetric': 1, 'per': 2, 'periodization': 2, 'constant': 3, 'reflect': 4,\n             'replicate': 5, 'periodic': 6}\n    if mode not in table:\n        raise ValueError(\"Unkown pad type: {}\".format(mode))\n    return table[mode]")]),
    ('weights-via-repeat', ['C01', 'C07', 'C13'], [(LL, "    h = torch.cat([h0, h1] * C, dim=0)\n\n    if mode == 'per' or mode == 'periodization':\n        if x.shape[dim] % 2 == 1:", "    h = torch.cat([h0, h1], dim=0).repeat(C, 1, 1, 1)\n\n    if mode == 'per' or mode == 'periodization':\n        if x.shape[dim] % 2 == 1:")]),
    ('explicit-channel-count-in-reshape', ['C01', 'C05'], [(LL, "        lohi = afb1d(x, h0_row, h1_row, mode=mode, dim=3)\n        y = afb1d(lohi, h0_col, h1_col, mode=mode, dim=2)\n        s = y.shape\n        y = y.reshape(s[0], -1, 4, s[-2], s[-1])\n        low = y[:,:,0].contiguous()",
                                                               "        lohi = afb1d(x, h0_row, h1_row, mode=mode, dim=3)\n        y = afb1d(lohi, h0_col, h1_col, mode=mode, dim=2)\n        s = y.shape\n        y = y.view(s[0], s[1] // 4, 4, s[2], s[3])\n        low = y[:,:,0].contiguous()")]),
    ('q2c-multiply-by-reciprocal', ['C03', 'C06', 'C12'], [(DL, "    y = y/np.sqrt(2)\n    a, b = y[:,:, 0::2, 0::2]", "    y = y*(1/np.sqrt(2))\n    a, b = y[:,:, 0::2, 0::2]")]),
    ('zeros-factory-spelling', ['C11', 'C04', 'C16'], [(DL, "    y = w1r.new_zeros((b, ch, r*2, c*2), requires_grad=w1r.requires_grad)", "    y = torch.zeros((b, ch, r*2, c*2), dtype=w1r.dtype, device=w1r.device)")]),
    ('fwd-j1-statements-reordered', ['C03', 'C06', 'C08'], [(TF, "        lo = rowfilter(x, h0, mode)\n        hi = rowfilter(x, h1, mode)\n        ll = colfilter(lo, h0, mode)\n        lh = colfilter(lo, h1, mode)\n        del lo\n        hl = colfilter(hi, h0, mode)\n        hh = colfilter(hi, h1, mode)\n        del hi",
                                                                "        hi = rowfilter(x, h1, mode)\n        hh = colfilter(hi, h1, mode)\n        hl = colfilter(hi, h0, mode)\n        del hi\n        lo = rowfilter(x, h0, mode)\n        lh = colfilter(lo, h1, mode)\n        ll = colfilter(lo, h0, mode)\n        del lo")]),
    ('symm-pad-memoised-correctly', ['C03', 'C11', 'C15'], [(UT, "def symm_pad_1d(l, m):", "@functools.lru_cache(maxsize=None)\ndef symm_pad_1d(l, m):")]),
    ('scat-square-by-product', ['C08', 'C09'], [(SL, "            r = torch.sqrt(reals**2 + imags**2 + bias**2)\n\n        if x.requires_grad:\n            drdx = reals/r\n            drdy = imags/r\n            ctx.save_for_backward(h0o, h1o, drdx, drdy)",
                                                    "            r = torch.sqrt(reals*reals + imags*imags + bias*bias)\n\n        if x.requires_grad:\n            drdx = reals/r\n            drdy = imags/r\n            ctx.save_for_backward(h0o, h1o, drdx, drdy)")]),
    ('scat-functional-spellings', ['C08', 'C09', 'C16'], [(SL, "            r = torch.sqrt(reals**2 + imags**2 + bias**2)\n\n        if x.requires_grad:\n            drdx = reals/r\n            drdy = imags/r\n            ctx.save_for_backward(h0o, h1o, drdx, drdy)",
                                                         "            r = torch.sqrt(torch.add(torch.square(reals), imags.square()) + bias**2)\n\n        if x.requires_grad:\n            rinv = r.reciprocal()\n            drdx = torch.mul(reals, rinv)\n            drdy = imags.mul(rinv)\n            ctx.save_for_backward(h0o, h1o, drdx, drdy)")]),
    ('q2c-functional-arithmetic', ['C03', 'C06', 'C12'], [(DL, "    y = y/np.sqrt(2)\n    a, b = y[:,:, 0::2, 0::2]", "    y = torch.div(y, np.sqrt(2))\n    a, b = y[:,:, 0::2, 0::2]")]),
    ('afb2d-backward-crop-as-two-ifs', ['C05'], [(LL, "            if dx.shape[-2] > ctx.shape[-2] and dx.shape[-1] > ctx.shape[-1]:\n                dx = dx[:,:,:ctx.shape[-2], :ctx.shape[-1]]\n            elif dx.shape[-2] > ctx.shape[-2]:\n                dx = dx[:,:,:ctx.shape[-2]]\n            elif dx.shape[-1] > ctx.shape[-1]:\n                dx = dx[:,:,:,:ctx.shape[-1]]",
                                                     "            if dx.shape[-2] > ctx.shape[-2]:\n                dx = dx[:,:,:ctx.shape[-2]]\n            if dx.shape[-1] > ctx.shape[-1]:\n                dx = dx[:,:,:,:ctx.shape[-1]]")]),
    ('skip-list-by-comprehension', ['C12', 'C03'], [(D2, "        highs = [x.new_zeros([]),] * self.J\n", "        highs = [x.new_zeros([]) for _ in range(self.J)]\n")]),
    ('table-file-rewritten', ['C18', 'C03'], [('npz', 'dtcwt/data/near_sym_a.npz', _resave)]),
    ('pad-helper-extracted', ['C01', 'C19'], [(LL, "    if mode == 'symmetric':\n        # Vertical only\n        if pad[0] == 0 and pad[1] == 0:\n            m1, m2 = pad[2], pad[3]\n            l = x.shape[-2]\n            xe = reflect(np.arange(-m1, l+m2, dtype='int32'), -0.5, l-0.5)\n            return x[:,:,xe]",
                                                  "    def _sym_index(l, m1, m2):\n        return reflect(np.arange(-m1, l+m2, dtype='int32'), -0.5, l-0.5)\n    if mode == 'symmetric':\n        # Vertical only\n        if pad[0] == 0 and pad[1] == 0:\n            xe = _sym_index(x.shape[-2], pad[2], pad[3])\n            return x[:,:,xe]")]),
]
