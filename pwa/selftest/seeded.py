"""python -m pwa seeded [-j N]: run the checks named in seeded/<id>/meta.json against a scratch copy of the
repository with that change applied; every seeded change must be reported (exit 1) by at least one named check."""
import json
import os
import shutil
import subprocess
import sys
import tempfile
import time
from concurrent.futures import ThreadPoolExecutor

VERIF = os.path.dirname(os.path.dirname(os.path.dirname(os.path.abspath(__file__))))


def run_one(sid, repo, jobs):
    d = tempfile.mkdtemp(prefix='pwa_seeded_')
    t0 = time.time()
    try:
        meta = json.load(open(os.path.join(VERIF, 'seeded', sid, 'meta.json')))
        shutil.copytree(os.path.join(repo, 'pytorch_wavelets'), os.path.join(d, 'pytorch_wavelets'))
        subprocess.run(['git', 'init', '-q', '.'], cwd=d, check=True)
        r = subprocess.run(['git', 'apply', '--whitespace=nowarn', os.path.join(VERIF, 'seeded', sid, 'patch.diff')],
                           cwd=d, capture_output=True, text=True)
        if r.returncode:
            return dict(id=sid, ok=False, why='patch does not apply: ' + r.stderr[:200], results={})
        env = dict(os.environ, PWA_EVIDENCE_DIR=os.path.join(d, 'ev'), PYTHONPATH=VERIF)
        results = {}
        for p in meta['reported_by_checks']:
            rr = subprocess.run([sys.executable, '-m', 'pwa', 'check', p, '--tier', 'quick', '--repo', d, '-j', str(jobs)],
                                cwd=VERIF, env=env, capture_output=True, text=True)
            first = next((l.strip()[:220] for l in rr.stdout.splitlines() if l.startswith('  ')), '')
            results[p] = dict(exit=rr.returncode, first=first)
        ok = any(v['exit'] == 1 for v in results.values())
        return dict(id=sid, ok=ok, why='' if ok else 'not reported', results=results, wall_s=round(time.time() - t0, 1))
    finally:
        shutil.rmtree(d, ignore_errors=True)


def main(a):
    ids = sorted(os.listdir(os.path.join(VERIF, 'seeded')))
    if a.only:
        ids = [i for i in ids if a.only in i]
    par = max(1, min(6, a.jobs // 3))
    with ThreadPoolExecutor(par) as ex:
        out = list(ex.map(lambda s: run_one(s, a.repo, max(2, a.jobs // par)), ids))
    for r in out:
        print('%-7s %s %s' % (r['id'], 'reported' if r['ok'] else 'MISSED: ' + r['why'],
                              ' '.join('%s=%d' % (p, v['exit']) for p, v in r['results'].items())))
    bad = [r['id'] for r in out if not r['ok']]
    if not a.only:
        json.dump({'seeded': len(out), 'missed': bad, 'results': out}, open(os.path.join(VERIF, 'seeded_report.json'), 'w'), indent=1)
    print('SEEDED: %d of %d reported' % (len(out) - len(bad), len(out)))
    return 2 if bad else 0
