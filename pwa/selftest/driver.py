"""python -m pwa selftest [-j N] [--only NAME]

Applies every variant of pwa.selftest.variants to a scratch copy of <repo>/pytorch_wavelets (outside /repo and
/verif, removed afterwards) and runs the named checks against the copy.  Breaking variants must be reported as
VIOLATION by at least one named check; neutral variants must leave every named check silent (exit 0).
A failing self-test is a defect of the checker, not of the repository: exit status 2.
"""
import json
import os
import shutil
import subprocess
import sys
import tempfile
import time
from concurrent.futures import ThreadPoolExecutor

from .variants import BREAKING, NEUTRAL

VERIF = os.path.dirname(os.path.dirname(os.path.dirname(os.path.abspath(__file__))))


def npz_edit(path, fn):
    import numpy as np
    d = dict(np.load(path, allow_pickle=False))
    d = fn(d, np)
    np.savez(path, **d)


def apply_edits(root, edits):
    text_edits = []
    for e in edits:
        if e[0] == 'npz':
            npz_edit(os.path.join(root, 'pytorch_wavelets', e[1]), e[2])
        else:
            text_edits.append(e)
    edits = text_edits
    for rel, old, new in edits:
        p = os.path.join(root, 'pytorch_wavelets', rel)
        s = open(p, encoding='utf-8').read()
        if s.count(old) != 1:
            return 'edit anchor occurs %d times in %s' % (s.count(old), rel)
        open(p, 'w', encoding='utf-8').write(s.replace(old, new))
    # the variant must still parse
    import ast
    for rel, _, _ in edits:
        p = os.path.join(root, 'pytorch_wavelets', rel)
        ast.parse(open(p, encoding='utf-8').read(), p)
    return None


def run_variant(kind, name, props, edits, repo, jobs):
    d = tempfile.mkdtemp(prefix='pwa_selftest_')
    t0 = time.time()
    try:
        shutil.copytree(os.path.join(repo, 'pytorch_wavelets'), os.path.join(d, 'pytorch_wavelets'))
        err = apply_edits(d, edits)
        if err:
            return dict(kind=kind, name=name, ok=False, why='stale variant: ' + err, results={})
        results = {}
        env = dict(os.environ, PWA_EVIDENCE_DIR=os.path.join(d, 'ev'), PYTHONPATH=VERIF)
        for p in props:
            r = subprocess.run([sys.executable, '-m', 'pwa', 'check', p, '--tier', 'quick', '--repo', d, '-j', str(jobs)],
                               cwd=VERIF, env=env, capture_output=True, text=True)
            first = ''
            for line in r.stdout.splitlines():
                if line.startswith(('VIOLATION', 'ANALYSIS-ERROR')) or line.startswith('  '):
                    first = line.strip()[:240]
                    if line.startswith('  '):
                        break
            results[p] = dict(exit=r.returncode, first=first)
        if kind == 'breaking':
            ok = any(v['exit'] == 1 for v in results.values())
            why = '' if ok else 'no named check reported a violation'
        else:
            ok = all(v['exit'] == 0 for v in results.values())
            why = '' if ok else 'a named check was not silent'
        return dict(kind=kind, name=name, ok=ok, why=why, results=results, wall_s=round(time.time() - t0, 1))
    finally:
        shutil.rmtree(d, ignore_errors=True)


def main(a):
    sel = [('breaking',) + v for v in BREAKING] + [('neutral',) + v for v in NEUTRAL]
    if a.only:
        sel = [v for v in sel if a.only in v[1]]
    par = max(1, min(6, a.jobs // 3))
    per = max(2, a.jobs // par)
    with ThreadPoolExecutor(par) as ex:
        out = list(ex.map(lambda v: run_variant(v[0], v[1], v[2], v[3], a.repo, per), sel))
    bad = [r for r in out if not r['ok']]
    rep = {'variants': len(out), 'breaking': sum(1 for r in out if r['kind'] == 'breaking'),
           'neutral': sum(1 for r in out if r['kind'] == 'neutral'), 'failed': [r['name'] for r in bad], 'results': out}
    if not a.only:
        with open(os.path.join(VERIF, 'selftest_report.json'), 'w') as f:
            json.dump(rep, f, indent=1)
    for r in out:
        print('%-9s %-40s %s %s' % (r['kind'], r['name'], 'ok' if r['ok'] else 'FAILED: ' + r['why'],
                                   ' '.join('%s=%d' % (p, v['exit']) for p, v in r['results'].items())))
    if bad:
        print('ANALYSIS-ERROR selftest: %d of %d variants not handled as expected' % (len(bad), len(out)))
        return 2
    print('SELFTEST OK: %d breaking variants reported, %d neutral variants silent' % (rep['breaking'], rep['neutral']))
    return 0
