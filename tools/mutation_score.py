"""Development-time mutation analysis of the *checker*: small syntactic mutants of the repository source are applied
to a scratch copy (outside /repo and /verif, removed afterwards) and the property family's quick checks are run on
each.  A mutant is `killed` when some check exits 1 (VIOLATION), `broken` when a check exits 2 and none exits 1,
`survived` when every check is silent.  Survivors are the interesting output: each is either an equivalent mutant,
a change outside every property's scope, or a blind spot of the checks.

    /venv/bin/python tools/mutation_score.py --per-function 4 --seed 1 --jobs 16 --out /tmp/scratch/mutscore.json
    /venv/bin/python tools/mutation_score.py --list            # only count the mutants

Not registered in MANIFEST.json; results are summarised in DESIGN.md."""
import argparse
import ast
import json
import os
import random
import shutil
import subprocess
import sys
import tempfile
import time
from concurrent.futures import ThreadPoolExecutor

VERIF = os.path.dirname(os.path.dirname(os.path.abspath(__file__)))
PKG = 'pytorch_wavelets'
FAMILY = {
    'dwt/lowlevel.py': ['C01', 'C10', 'C05', 'C14', 'C13', 'C19', 'C02', 'C17', 'C07'],
    'dwt/transform1d.py': ['C01', 'C10', 'C05', 'C02', 'C17', 'C07'],
    'dwt/transform2d.py': ['C01', 'C10', 'C14', 'C13', 'C02', 'C05', 'C07'],
    'dtcwt/lowlevel.py': ['C03', 'C11', 'C06', 'C04', 'C08'],
    'dtcwt/transform_funcs.py': ['C03', 'C11', 'C06', 'C12', 'C04', 'C09'],
    'dtcwt/transform2d.py': ['C03', 'C11', 'C12', 'C06', 'C04'],
    'dtcwt/coeffs.py': ['C18', 'C03', 'C04'],
    'utils.py': ['C03', 'C11', 'C01', 'C04'],
    'scatternet/layers.py': ['C08', 'C09', 'C16'],
    'scatternet/lowlevel.py': ['C08', 'C09', 'C16', 'C01'],
}
SKIP_FUNCS = {'pywt_coeffs', 'extra_repr', 'drawcirc', 'drawedge', 'asfarray', 'appropriate_complex_type_for',
              'stacked_2d_matrix_vector_prod', 'stacked_2d_vector_matrix_prod', 'stacked_2d_matrix_matrix_prod',
              'unpack', 'memoize', '_as_row_tensor', '_as_col_tensor', '_as_row_vector', 'as_column_vector', 'pm'}
CMP = {ast.Lt: '<=', ast.LtE: '<', ast.Gt: '>=', ast.GtE: '>', ast.Eq: '!=', ast.NotEq: '=='}
BIN = {ast.Add: '-', ast.Sub: '+', ast.Mult: '//', ast.FloorDiv: '*', ast.Mod: '//'}
SWAPS = [('h0', 'h1'), ('g0', 'g1'), ('row', 'col'), ('lo', 'hi'), ('h0o', 'h1o'), ('h0a', 'h0b'), ('h1a', 'h1b'),
         ('g0a', 'g0b'), ('g1a', 'g1b'), ('reals', 'imags'), ('lh', 'hl'), ('r', 'c'), ('dim', 'd')]


def seg(src_lines, node):
    if node.lineno != node.end_lineno:
        return None
    return node.lineno - 1, node.col_offset, node.end_col_offset


def replace(src_lines, line, a, b, text):
    out = list(src_lines)
    out[line] = out[line][:a] + text + out[line][b:]
    return out


def mutants_of(path, rel):
    src = open(path, encoding='utf-8').read()
    lines = src.split('\n')
    tree = ast.parse(src)
    out = []

    def add(fn, kind, node_line, new_lines, descr):
        text = '\n'.join(new_lines)
        try:
            ast.parse(text)
        except SyntaxError:
            return
        if text != src:
            out.append(dict(file=rel, function=fn, kind=kind, line=node_line + 1, descr=descr, text=text))

    def walk_function(fn_name, fnode):
        names = {n.id for n in ast.walk(fnode) if isinstance(n, ast.Name)} | {a.arg for a in ast.walk(fnode) if isinstance(a, ast.arg)}
        doc = ast.get_docstring(fnode, clean=False)
        for node in ast.walk(fnode):
            if isinstance(node, ast.Compare) and len(node.ops) == 1 and type(node.ops[0]) in CMP:
                l, r = node.left, node.comparators[0]
                if l.end_lineno == r.lineno == node.lineno:
                    mid = lines[node.lineno - 1][l.end_col_offset:r.col_offset]
                    new = ' %s ' % CMP[type(node.ops[0])]
                    add(fn_name, 'relational', node.lineno - 1,
                        replace(lines, node.lineno - 1, l.end_col_offset, r.col_offset, new), '%s -> %s' % (mid.strip(), new.strip()))
            elif isinstance(node, ast.BinOp) and type(node.op) in BIN:
                l, r = node.left, node.right
                if l.end_lineno == r.lineno:
                    mid = lines[l.end_lineno - 1][l.end_col_offset:r.col_offset]
                    if mid.strip() in ('+', '-', '*', '//', '%'):
                        new = mid.replace(mid.strip(), BIN[type(node.op)])
                        add(fn_name, 'arithmetic', l.end_lineno - 1,
                            replace(lines, l.end_lineno - 1, l.end_col_offset, r.col_offset, new), '%s -> %s' % (mid.strip(), new.strip()))
            elif isinstance(node, ast.Constant) and isinstance(node.value, int) and not isinstance(node.value, bool) \
                    and -4 <= node.value <= 8:
                s_ = seg(lines, node)
                if s_:
                    for delta in (1, -1):
                        add(fn_name, 'constant', s_[0], replace(lines, s_[0], s_[1], s_[2], str(node.value + delta)),
                            '%d -> %d' % (node.value, node.value + delta))
            elif isinstance(node, ast.BoolOp):
                a, b = node.values[0], node.values[1]
                if a.end_lineno == b.lineno:
                    mid = lines[a.end_lineno - 1][a.end_col_offset:b.col_offset]
                    if mid.strip() in ('and', 'or'):
                        new = mid.replace(mid.strip(), 'or' if mid.strip() == 'and' else 'and')
                        add(fn_name, 'boolean', a.end_lineno - 1,
                            replace(lines, a.end_lineno - 1, a.end_col_offset, b.col_offset, new), '%s -> %s' % (mid.strip(), new.strip()))
            elif isinstance(node, (ast.If, ast.IfExp)):
                s_ = seg(lines, node.test)
                if s_:
                    t = lines[s_[0]][s_[1]:s_[2]]
                    add(fn_name, 'negate-condition', s_[0], replace(lines, s_[0], s_[1], s_[2], 'not (%s)' % t), 'if %s -> if not (...)' % t[:40])
            elif isinstance(node, ast.Name) and isinstance(node.ctx, ast.Load):
                for a, b in SWAPS:
                    for x, y in ((a, b), (b, a)):
                        if node.id == x or (x in node.id.split('_') and len(node.id) > len(x)):
                            new = y if node.id == x else '_'.join(y if p == x else p for p in node.id.split('_'))
                            if new in names and new != node.id:
                                s_ = seg(lines, node)
                                add(fn_name, 'wrong-variable', s_[0], replace(lines, s_[0], s_[1], s_[2], new), '%s -> %s' % (node.id, new))
            elif isinstance(node, ast.Call) and len(node.args) >= 2 and not node.keywords:
                a, b = node.args[0], node.args[1]
                sa, sb = seg(lines, a), seg(lines, b)
                if sa and sb and sa[0] == sb[0] and not isinstance(a, ast.Starred) and not isinstance(b, ast.Starred):
                    ta, tb = lines[sa[0]][sa[1]:sa[2]], lines[sb[0]][sb[1]:sb[2]]
                    if ta != tb:
                        l2 = replace(lines, sa[0], sb[1], sb[2], ta)
                        l2 = replace(l2, sa[0], sa[1], sa[2], tb)
                        add(fn_name, 'swap-arguments', sa[0], l2, '(%s, %s) swapped' % (ta[:20], tb[:20]))
        for st in ast.walk(fnode):
            if isinstance(st, (ast.Assign, ast.AugAssign)) and st.lineno == st.end_lineno and st is not fnode:
                # statement deletion: only re-assignments of an existing name (x = f(x)) and augmented assignments
                tgt = st.targets[0] if isinstance(st, ast.Assign) else st.target
                used = {n.id for n in ast.walk(st.value) if isinstance(n, ast.Name)}
                if isinstance(st, ast.AugAssign) or (isinstance(tgt, ast.Name) and tgt.id in used) or isinstance(tgt, ast.Subscript):
                    ind = len(lines[st.lineno - 1]) - len(lines[st.lineno - 1].lstrip())
                    l2 = list(lines)
                    l2[st.lineno - 1] = ' ' * ind + 'pass'
                    add(fn_name, 'delete-statement', st.lineno - 1, l2, 'removed: ' + lines[st.lineno - 1].strip()[:50])
        for a, d in zip(fnode.args.args[len(fnode.args.args) - len(fnode.args.defaults):], fnode.args.defaults):
            if isinstance(d, ast.Constant) and isinstance(d.value, (bool, str)) and d.lineno == d.end_lineno:
                new = {True: 'False', False: 'True', 'zero': "'symmetric'", 'symmetric': "'zero'"}.get(d.value)
                if new:
                    add(fn_name, 'default-value', d.lineno - 1, replace(lines, d.lineno - 1, d.col_offset, d.end_col_offset, new),
                        'default of %s: %r -> %s' % (a.arg, d.value, new))

    for node in tree.body:
        if isinstance(node, ast.FunctionDef) and node.name not in SKIP_FUNCS:
            walk_function(node.name, node)
        elif isinstance(node, ast.ClassDef):
            for m in node.body:
                if isinstance(m, ast.FunctionDef) and m.name not in SKIP_FUNCS:
                    walk_function(node.name + '.' + m.name, m)
    # drop mutants that only touch the docstring / are duplicates
    seen, uniq = set(), []
    for m in out:
        if m['text'] in seen:
            continue
        seen.add(m['text'])
        uniq.append(m)
    return uniq


def run_mutant(m, repo, jobs, checks=None):
    d = tempfile.mkdtemp(prefix='pwa_mut_')
    t0 = time.time()
    try:
        shutil.copytree(os.path.join(repo, PKG), os.path.join(d, PKG))
        with open(os.path.join(d, PKG, m['file']), 'w', encoding='utf-8') as f:
            f.write(m['text'])
        env = dict(os.environ, PWA_EVIDENCE_DIR=os.path.join(d, 'ev'), PYTHONPATH=VERIF)
        res = {}
        verdict = 'survived'
        for p in (checks or FAMILY[m['file']]):
            r = subprocess.run([sys.executable, '-m', 'pwa', 'check', p, '--tier', 'quick', '--repo', d, '-j', str(jobs)],
                               cwd=VERIF, env=env, capture_output=True, text=True)
            res[p] = r.returncode
            if r.returncode == 1:
                verdict = 'killed'
                m['killed_by'] = p
                first = [l for l in r.stdout.splitlines() if l.startswith('  ')]
                m['report'] = first[0].strip()[:200] if first else ''
                break
            if r.returncode != 0:
                verdict = 'broken'
                m.setdefault('broken_in', []).append(p)
                err = [l for l in r.stdout.splitlines() if l.startswith('ANALYSIS-ERROR')]
                m['error'] = err[0][:240] if err else ''
        m['verdict'] = verdict
        m['results'] = res
        m['wall_s'] = round(time.time() - t0, 1)
        return m
    finally:
        shutil.rmtree(d, ignore_errors=True)


def main():
    ap = argparse.ArgumentParser()
    ap.add_argument('--repo', default='/repo')
    ap.add_argument('--per-function', type=int, default=3)
    ap.add_argument('--seed', type=int, default=1)
    ap.add_argument('--jobs', type=int, default=16)
    ap.add_argument('--files', default='')
    ap.add_argument('--out', default='/tmp/scratch/mutscore.json')
    ap.add_argument('--list', action='store_true')
    a = ap.parse_args()
    rng = random.Random(a.seed)
    allm = []
    for rel in sorted(FAMILY):
        if a.files and rel not in a.files.split(','):
            continue
        ms = mutants_of(os.path.join(a.repo, PKG, rel), rel)
        by_fn = {}
        for m in ms:
            by_fn.setdefault(m['function'], []).append(m)
        for fn, lst in sorted(by_fn.items()):
            rng.shuffle(lst)
            # spread over kinds
            lst.sort(key=lambda m: 0)
            picked, kinds = [], set()
            for m in lst:
                if m['kind'] not in kinds:
                    picked.append(m)
                    kinds.add(m['kind'])
            for m in lst:
                if m not in picked:
                    picked.append(m)
            allm.extend(picked[:a.per_function])
        print('%-28s %5d candidate mutants in %d functions' % (rel, len(ms), len(by_fn)), file=sys.stderr)
    print('%d mutants selected' % len(allm), file=sys.stderr)
    if a.list:
        return 0
    par = max(1, a.jobs // 4)
    with ThreadPoolExecutor(par) as ex:
        done = list(ex.map(lambda m: run_mutant(m, a.repo, 4), allm))
    for m in done:
        m.pop('text', None)
    summ = {}
    for m in done:
        summ[m['verdict']] = summ.get(m['verdict'], 0) + 1
    json.dump({'summary': summ, 'mutants': done}, open(a.out, 'w'), indent=1)
    print(summ)
    for m in done:
        if m['verdict'] != 'killed':
            print('%-9s %s:%d %s [%s] %s %s' % (m['verdict'], m['file'], m['line'], m['function'], m['kind'], m['descr'], m.get('error', '')[:120]))
    return 0


if __name__ == '__main__':
    sys.exit(main())
