#!/bin/bash
# usage: tools/try_patch.sh <patch.diff> <prop> [<prop> ...]   -- run checks against a scratch copy of /repo with the patch applied
set -e
PATCH=$(readlink -f "$1"); shift
D=$(mktemp -d /tmp/pwa_try.XXXXXX)
trap 'rm -rf "$D"' EXIT
mkdir -p "$D/repo" "$D/ev"
cp -r /repo/pytorch_wavelets "$D/repo/"
( cd "$D/repo" && git init -q . && git apply --whitespace=nowarn "$PATCH" ) || { echo "PATCH DOES NOT APPLY"; exit 3; }
for p in "$@"; do
  PWA_EVIDENCE_DIR="$D/ev" /venv/bin/python -m pwa check "$p" --tier ${TIER:-quick} --repo "$D/repo" 2>&1 | cut -c1-${CUT:-260} | grep -v "^KNOWN-FINDING" | head -${LINES_MAX:-6}
done
