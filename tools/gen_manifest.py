"""Regenerate /verif/MANIFEST.json from the table below (run by hand after adding a check)."""
import json
import os

VERIF = os.path.dirname(os.path.dirname(os.path.abspath(__file__)))

TB = ('Trusted base: the primitive transfer table (pwa/ops.py, pwa/fakelibs.py: conv2d, conv_transpose2d, pad, '
      'cat/stack/unbind, indexing, reshape/view, avg_pool2d, interpolate), the frozen reference rules pwa/spec.py '
      '(calibrated against PyWavelets 1.10.0 / dtcwt 0.14.0 at development time), real arithmetic (rounding is '
      'never addressed), and the enumerated configuration grid (sizes, filter lengths, levels).')

CLAIMED = {
    'C01': dict(
        level='translation_validation', design='DESIGN.md 4/C01',
        technique='abstract interpretation of the source over formal filter taps (operator normal forms) + '
                  'translation validation against frozen PyWavelets index rules',
        text='Decides, for every configuration of the grid and for ALL inputs and ALL filter values of that length, '
             'that the linear operator denoted by DWT1DForward/DWTForward (constructor -> prep_filt -> AFB1D/AFB2D -> '
             'afb1d -> pad/roll/conv2d) equals PyWavelets\' dwt/dwt2 operator: filter identity and orientation, '
             'extension kind and amounts, alignment, band lengths, band order (LH,HL,HH), finest-first pyramid, '
             'per-(batch,channel) action, and mode reachability (reflect may raise only when the level is shorter '
             'than the filter). The source is interpreted, never executed; tensor contents and tap values never appear.',
        note=TB),
    'C02': dict(
        level='other', design='DESIGN.md 4/C02',
        technique='abstract interpretation of inverse(forward(x)) over formal taps; polynomial operator evaluated '
                  'at every PyWavelets filter table and compared with the identity on the original extent',
        text='Decides S*A = I on the original extent for ALL inputs per configuration: the composed operator is '
             'extracted symbolically (no input is ever chosen), its extent is checked (N or N+1 for odd N), and for '
             'each PyWavelets wavelet of that length the tap polynomial entries are evaluated at the table values and '
             'must equal the identity up to max(1e-9, 1.5x PyWavelets\' own reconstruction error) - which is the '
             'dmey clause of the property. Unpad/level-loop bookkeeping is part of the interpreted code.',
        note=TB + ' Perfect reconstruction of the PyWavelets tables themselves is an external fact that is '
                  're-checked numerically through the composed operator.'),
    'C05': dict(
        level='other', design='DESIGN.md 4/C05',
        technique='abstract interpretation of forward and hand-written backward of each autograd Function; '
                  'operator transposition; exhaustive enumeration of needs_input_grad subsets',
        text='For AFB1D, AFB2D, SFB1D, SFB2D, every mode, filter lengths, sizes (odd included) and every non-empty '
             'subset of differentiable inputs: backward, interpreted on symbolic cotangents, must return for every '
             'required input a gradient whose operator equals the transpose of the interpreted forward operator, '
             'for all cotangents and all filter values; arity / None-ness are checked as autograd enforces them. '
             'Non-adjoint modes of the pinned tree are recorded known findings keyed by (Function, mode, class of '
             'difference, slot).',
        note=TB),
    'C10': dict(
        level='translation_validation', design='DESIGN.md 4/C10',
        technique='abstract interpretation over formal taps + translation validation against frozen PyWavelets '
                  'waverec/waverec2 index rules',
        text='The operator denoted by DWT1DInverse/DWTInverse on independent symbolic coefficient tensors (so: on '
             'arbitrary pyramids, not only images of the analysis) equals PyWavelets\' waverec/waverec2 operator per '
             'mode, filter length, size and level count, including the unpad rule; every mask of None levels for '
             'J<=3 is compared with zeros of the right shape on the signal extent.',
        note=TB),
    'C13': dict(
        level='translation_validation', design='DESIGN.md 4/C13',
        technique='abstract interpretation + translation validation against the frozen pywt.swt2 rule; circulant '
                  'structure of the extracted operator',
        text='SWTForward with default mode, periodization and periodic: constructor and forward must not raise, '
             'every level has shape (N,C,4,H,W) at full resolution, each band equals the swt2 operator (periodic, '
             'filters dilated by 2^(j-1), band order A,H,V,D) for all inputs, and every axis table is circulant, '
             'which is shift-equivariance.',
        note=TB),
    'C14': dict(
        level='other', design='DESIGN.md 4/C14',
        technique='role-flow by abstract interpretation: the four user filters are distinct formal symbols; the '
                  'axis each one ends up filtering is read off the extracted operator',
        text='DWTForward/DWTInverse constructed with a 4-tuple (different filter lengths per axis) must apply the '
             'column pair along the vertical axis and the row pair along the horizontal axis, exactly as the '
             'PyWavelets per-axis rule and as the functional afb2d/sfb2d given the same four filters; 2-tuples use '
             'one pair on both axes. Complete over the def-use graph because the whole constructor-to-conv path is '
             'interpreted.',
        note=TB),
    'C17': dict(
        level='other', design='DESIGN.md 4/C17',
        technique='operator identity between the interpreted inverse (rec taps substituted by reversed dec taps) '
                  'and the transpose of the interpreted forward; PyWavelets tables read as data',
        text='Under the precondition of the property (periodization, every level even and >= filter length): '
             'inverse[g=rev h] == transpose(forward) cell by cell with formal taps, 1-D and 2-D, J<=3; all PyWavelets '
             'orthogonal families satisfy rec=rev(dec) and orthonormality under even shifts. With C02 this yields '
             'A^T A = I and energy preservation; with C05 back-propagation equals the inverse.',
        note=TB),
    'C19': dict(
        level='translation_validation', design='DESIGN.md 4/C19',
        technique='sibling translation validation by abstract interpretation (no external oracle)',
        text='afb2d_nonsep vs afb2d and sfb2d_nonsep vs sfb2d are interpreted on the same symbolic input and formal '
             'filters (2- and 4-filter forms, different lengths per axis) for zero, symmetric, reflect, '
             'periodization: the extracted operators of all four subbands / of the reconstruction must be identical '
             '(or both must raise).',
        note=TB),
    'C03': dict(
        level='translation_validation', design='DESIGN.md 4/C03',
        technique='abstract interpretation over formal table taps + translation validation against the frozen '
                  'reference assembly of dtcwt 0.14.0',
        text='For the 20 named filter pairs, sizes in every class of H,W mod 4 (odd included) and J up to 3-4: the '
             'lowpass and all 6 orientations x (real, imag) per level of DTCWTForward are equal, as linear operators '
             'with formal taps tagged by table key, to the reference assembly (edge replication for odd sizes, '
             'multiple-of-4 extension, colfilter, coldfilt with (b,a) argument order and sign-dependent interleave, '
             'q2c, orientation slot table). Shapes follow the reference pyramid recurrence exactly.',
        note=TB + ' DTCWT reference rules were transcribed from dtcwt/numpy/lowlevel.py and transform2d.py and '
                  'calibrated with tools/calibrate_dtcwt.py (1486 cases).'),
    'C04': dict(
        level='other', design='DESIGN.md 4/C04',
        technique='operators of forward and inverse extracted by abstract interpretation, evaluated at the shipped '
                  'table values and multiplied (S*A = E for all inputs)',
        text='For all 20 filter pairs and sizes covering every H,W mod 4 class: sum over subbands of S_band*A_band '
             'equals the identity on the image (edge replication on the extra row/column of odd sizes) to 1e-8; the '
             'crop/extend bookkeeping is part of the interpreted code.',
        note=TB),
    'C06': dict(
        level='other', design='DESIGN.md 4/C06',
        technique='abstract interpretation of forward and hand-written backward of FWD_J1/FWD_J2PLUS/INV_J1/'
                  'INV_J2PLUS; operator transposition modulo table symmetries; enumeration of grad subsets, '
                  'layouts, skipped/absent bandpass variants',
        text='Every required gradient equals the transpose of the forward operator for all cotangents, after '
             'identifying taps that the shipped tables make equal (symmetric level-1 filters, tree b = reverse of '
             'tree a; discharged per table by C18).',
        note=TB),
    'C11': dict(
        level='translation_validation', design='DESIGN.md 4/C11',
        technique='abstract interpretation + translation validation against the frozen reference inverse assembly; '
                  'typestate enumeration of absent (None / 0-dim) levels',
        text='DTCWTInverse on independent symbolic lowpass and subband tensors equals the reference inverse (c2q, '
             'colifilt with (b,a) order, crop rule, colfilter) for the 20 pairs; every subset of absent levels for '
             'J<=3 (None and 0-dim, lowpass included) is compared with zeros of the right shape.',
        note=TB),
    'C12': dict(
        level='exploration', design='DESIGN.md 4/C12',
        technique='exhaustive enumeration of the finite layout set by abstract interpretation; option siblings '
                  'compared as operators',
        text='All 30 ordered (o_dim, ri_dim) pairs in positive and negative spelling: forward output equals the '
             'reference placed at those axes and the inverse configured with the same pair reconstructs the '
             'reference inverse; every skip_hps / include_scale mask for J<=3 and prefix consistency are compared '
             'with the plain transform (symmetric and zero mode) and with the reference.',
        note=TB),
    'C18': dict(
        level='exploration', design='DESIGN.md 4/C18',
        technique='static data inspection: .npz members parsed from zip + npy headers; algebraic identities; '
                  'interpreted loader calls',
        text='Exhaustive over the 14 shipped tables: value equality with the reference package per key, symmetry '
             'and odd length of level-1 filters, h0o*g0o + h1o*g1o = unit impulse, q-shift time-reversal relations '
             '(trees a/b, analysis/synthesis, band-pass variants), orthonormality, interleave sign; every loader '
             'for every name returns arrays of the requested keys of that file and repeats after other loads.',
        note='Trusted: the installed reference package dtcwt 0.14.0; tolerance 1e-12 (1e-9 for products).'),
    'C07': dict(
        level='other', design='DESIGN.md 4/C07',
        technique='effect system by abstract interpretation: the domain represents only linear forms; slice '
                  'provenance of every output cell',
        text='Every public entry point (DWT/SWT/DTCWT modules with options, functional and non-separable banks incl. '
             'negative-dim spellings, DTCWT low-level filters) is interpreted with (N,C)=(2,3) and (1,1) (and, on tiny '
             'extents, with (7,2) and (2,7) so that an index landing on the wrong axis mixes slices instead of raising): any '
             'non-linear primitive, added constant (incl. constant-filled or uninitialised tensors), non-zero pad value, bias, reduction or branch on tensor contents '
             'is reported with its statement; every output cell must read only the input slice with its own (n,c), '
             'through one operator shared by all slices and independent of N and C. This decides linearity, '
             'homogeneity and per-slice action for all inputs.',
        note=TB + ' A data-dependent shortcut that happens to preserve linearity would be reported too (documented '
                  'in DESIGN.md section 8).'),
    'C15': dict(
        level='other', design='DESIGN.md 4/C15',
        technique='ownership / effect analysis by abstract interpretation (storage owners, views, tracked lists, '
                  'persistent writes), abstract call-history comparison, syntactic who-may-call sweep',
        text='No in-place primitive may target storage owned by an argument, buffer, parameter or cached table '
             '(views followed); caller lists may not be mutated; module / global / class / function-attribute writes '
             'during a call are tracked; results must be identical on repetition, with requires_grad set, and inside '
             'arbitrary call sequences vs a fresh process and on one module instance called with varying batch / channel / size vs fresh instances, earlier results must not change when the instance is called again, no result may read uninitialised memory (sequences are escalated to all ordered pairs for entry '
             'kinds that write persistent state); no call site of a process-wide torch state setter exists in the '
             'package. Thread-independence is the corollary that the only shared objects are read-only buffers and '
             'the idempotent table cache.',
        note=TB + ' Threads are not executed; PyTorch kernels are assumed thread-safe.'),
    'C16': dict(
        level='other', design='DESIGN.md 4/C16',
        technique='dtype-provenance and contiguity analysis by abstract interpretation',
        text='Decides clauses 1 and 3 of the property (forward passes and every hand-written backward reached): every returned tensor / gradient / placeholder has the input dtype, every factory / '
             'cast on a data path derives its dtype from the input, every convolution weight on a module path is a '
             'registered buffer/parameter (so .double()/.float() converts it), and no .view() is applied to '
             'input-strided data (non-contiguous inputs give the same operator). Clause 2 (float32 accuracy bound) '
             'is NOT decided: no static argument in reach bounds rounding error; only the necessary condition '
             '"no narrowing cast on a data path" and "no torch.finfo(dtype) constant reaches a value or decides a branch" are enforced.',
        note=TB + ' Assumes the module was converted to the dtype of its input.'),
    'C08': dict(
        level='other', design='DESIGN.md 4/C08',
        technique='abstract interpretation into normal-form expressions over linear fields (symbolic magnitude bias) '
                  '+ comparison with the defined coefficients built from the DTCWT reference rules; sign analysis',
        text='ScatLayer / ScatLayerj2 (plain and band-pass filter families, colour combination on/off): every output '
             'channel, as an expression valid for all inputs and all biases, equals the defined coefficient (pooled '
             'reference lowpass; sqrt(re^2+im^2+b^2)-b of the reference subbands; second-order cascade over the '
             'first-order magnitudes), band-major stacking and documented shapes for every size class; every '
             'magnitude channel is proved non-negative; no partial primitive occurs.',
        note=TB + ' The band order inside the 36 second-order channels is the one the repository tests pin against '
                  'the NumPy reference.'),
    'C09': dict(
        level='other', design='DESIGN.md 4/C09',
        technique='symbolic reverse-mode differentiation of the interpreted forward expression DAG compared, path by '
                  'path, with the interpreted hand-written backward; abstract lower bounds for denominators',
        text='For the four scattering Functions (grey / colour, plain / band-pass, symmetric and zero mode at first '
             'order) and SmoothMagFn (every grad subset): the backward, never executed by the test-suite, is '
             'interpreted on a symbolic cotangent and must coincide with the reverse-mode derivative of the forward '
             'as a set of paths [linear operator, pointwise factor]*; every division / square root on forward, saved '
             'tensors and backward is bounded away from zero by b > 0 (finite at the zero image); odd sizes included; backward may not write to tensors left on ctx (repeatable backward).',
        note=TB + ' Equality of linear stages is modulo the table symmetries discharged by C18.'),
}

NOT_APPLICABLE = {}


def main():
    props = [json.loads(l) for l in open(os.path.join(VERIF, 'properties.jsonl'))]
    checks = []
    na = []
    for p in props:
        pid = p['id']
        if pid in CLAIMED:
            c = CLAIMED[pid]
            checks.append({
                'property_id': pid,
                'quick_cmd': '/venv/bin/python -m pwa check %s --tier quick' % pid,
                'thorough_cmd': '/venv/bin/python -m pwa check %s --tier thorough' % pid,
                'evidence_file': '/verif/evidence/%s.json' % pid,
                'replay_cmd_template': '/venv/bin/python -m pwa check %s --tier thorough  # findings of the failing '
                                       'run are listed in {path}' % pid,
                'engine': 'pwa',
                'level_claimed': {'category': c['level'], 'text': c['text'], 'design_ref': c['design']},
                'level_note': c['note'],
                'technique': c['technique'],
            })
        else:
            na.append({'property_id': pid,
                       'reason': NOT_APPLICABLE.get(pid, 'check not built yet (construction in progress, see DESIGN.md section 5)')})
    m = {
        'version': 1,
        'setup_cmd': 'true',
        'hooks': {
            'guard': 'PYTORCH_WAVELETS_VERIF',
            'enable': 'none needed: static analysis reads the source tree; no instrumentation is compiled into /repo',
            'baseline_off_cmd': 'cd /repo && /venv/bin/python -m pytest -ra -q -p no:cacheprovider --timeout=900 '
                                '--continue-on-collection-errors',
            'source_commits': [],
            'add_only': True,
        },
        'engines': [{
            'name': 'pwa', 'path': '/verif/pwa',
            'serves_properties': sorted(CLAIMED),
            'kind_free_text': 'static analysis: AST interpreter over an abstract domain (no repository code is '
                              'imported or executed), rule checkers, and a reader for the shipped .npz tables',
        }],
        'checks': checks,
        'notes': 'All checks are static: they parse /repo/pytorch_wavelets on every run. known_findings.json lists '
                 'genuine defects recorded rather than repaired, and the fix: commits made in /repo.',
        'not_applicable': na,
    }
    with open(os.path.join(VERIF, 'MANIFEST.json'), 'w') as f:
        json.dump(m, f, indent=1)
    print('claimed', sorted(CLAIMED), 'n/a', [x['property_id'] for x in na])


if __name__ == '__main__':
    main()
