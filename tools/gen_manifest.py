"""Regenerate /verif/MANIFEST.json from the table below (run by hand after adding a check)."""
import json
import os

VERIF = os.path.dirname(os.path.dirname(os.path.abspath(__file__)))

TB = ('Trusted base: the primitive transfer table (pwa/ops.py, pwa/fakelibs.py: conv2d, conv_transpose2d, pad, '
      'cat/stack/unbind, indexing, reshape/view, avg_pool2d, interpolate), the frozen reference rules pwa/spec.py '
      '(calibrated against PyWavelets 1.10.0 / dtcwt 0.14.0 at development time), real arithmetic (rounding is '
      'never addressed), and the enumerated configuration grid (sizes, filter lengths, levels).')

CLAIMED = {
    'C01': dict(
        level='translation_validation', design='DESIGN.md 4/C01',
        technique='abstract interpretation of the source over formal filter taps (operator normal forms) + '
                  'translation validation against frozen PyWavelets index rules',
        text='Decides, for every configuration of the grid and for ALL inputs and ALL filter values of that length, '
             'that the linear operator denoted by DWT1DForward/DWTForward (constructor -> prep_filt -> AFB1D/AFB2D -> '
             'afb1d -> pad/roll/conv2d) equals PyWavelets\' dwt/dwt2 operator: filter identity and orientation, '
             'extension kind and amounts, alignment, band lengths, band order (LH,HL,HH), finest-first pyramid, '
             'per-(batch,channel) action, and mode reachability (reflect may raise only when the level is shorter '
             'than the filter). The source is interpreted, never executed; tensor contents and tap values never appear.',
        note=TB),
}

NOT_APPLICABLE = {}


def main():
    props = [json.loads(l) for l in open(os.path.join(VERIF, 'properties.jsonl'))]
    checks = []
    na = []
    for p in props:
        pid = p['id']
        if pid in CLAIMED:
            c = CLAIMED[pid]
            checks.append({
                'property_id': pid,
                'quick_cmd': '/venv/bin/python -m pwa check %s --tier quick' % pid,
                'thorough_cmd': '/venv/bin/python -m pwa check %s --tier thorough' % pid,
                'evidence_file': '/verif/evidence/%s.json' % pid,
                'replay_cmd_template': '/venv/bin/python -m pwa check %s --tier thorough  # findings of the failing '
                                       'run are listed in {path}' % pid,
                'engine': 'pwa',
                'level_claimed': {'category': c['level'], 'text': c['text'], 'design_ref': c['design']},
                'level_note': c['note'],
                'technique': c['technique'],
            })
        else:
            na.append({'property_id': pid,
                       'reason': NOT_APPLICABLE.get(pid, 'check not built yet (construction in progress, see DESIGN.md section 5)')})
    m = {
        'version': 1,
        'setup_cmd': 'true',
        'hooks': {
            'guard': 'PYTORCH_WAVELETS_VERIF',
            'enable': 'none needed: static analysis reads the source tree; no instrumentation is compiled into /repo',
            'baseline_off_cmd': 'cd /repo && /venv/bin/python -m pytest -ra -q -p no:cacheprovider --timeout=900 '
                                '--continue-on-collection-errors',
            'source_commits': [],
            'add_only': True,
        },
        'engines': [{
            'name': 'pwa', 'path': '/verif/pwa',
            'serves_properties': sorted(CLAIMED),
            'kind_free_text': 'static analysis: AST interpreter over an abstract domain (no repository code is '
                              'imported or executed), rule checkers, and a reader for the shipped .npz tables',
        }],
        'checks': checks,
        'notes': 'All checks are static: they parse /repo/pytorch_wavelets on every run. known_findings.json lists '
                 'genuine defects recorded rather than repaired, and the fix: commits made in /repo.',
        'not_applicable': na,
    }
    with open(os.path.join(VERIF, 'MANIFEST.json'), 'w') as f:
        json.dump(m, f, indent=1)
    print('claimed', sorted(CLAIMED), 'n/a', [x['property_id'] for x in na])


if __name__ == '__main__':
    main()
