"""Regenerate /verif/MANIFEST.json from the table below (run by hand after adding a check)."""
import json
import os

VERIF = os.path.dirname(os.path.dirname(os.path.abspath(__file__)))

TB = ('Trusted base: the primitive transfer table (pwa/ops.py, pwa/fakelibs.py: conv2d, conv_transpose2d, pad, '
      'cat/stack/unbind, indexing, reshape/view, avg_pool2d, interpolate), the frozen reference rules pwa/spec.py '
      '(calibrated against PyWavelets 1.10.0 / dtcwt 0.14.0 at development time), real arithmetic (rounding is '
      'never addressed), and the enumerated configuration grid (sizes, filter lengths, levels).')

CLAIMED = {
    'C01': dict(
        level='translation_validation', design='DESIGN.md 4/C01',
        technique='abstract interpretation of the source over formal filter taps (operator normal forms) + '
                  'translation validation against frozen PyWavelets index rules',
        text='Decides, for every configuration of the grid and for ALL inputs and ALL filter values of that length, '
             'that the linear operator denoted by DWT1DForward/DWTForward (constructor -> prep_filt -> AFB1D/AFB2D -> '
             'afb1d -> pad/roll/conv2d) equals PyWavelets\' dwt/dwt2 operator: filter identity and orientation, '
             'extension kind and amounts, alignment, band lengths, band order (LH,HL,HH), finest-first pyramid, '
             'per-(batch,channel) action, and mode reachability (reflect may raise only when the level is shorter '
             'than the filter). The source is interpreted, never executed; tensor contents and tap values never appear.',
        note=TB),
    'C02': dict(
        level='other', design='DESIGN.md 4/C02',
        technique='abstract interpretation of inverse(forward(x)) over formal taps; polynomial operator evaluated '
                  'at every PyWavelets filter table and compared with the identity on the original extent',
        text='Decides S*A = I on the original extent for ALL inputs per configuration: the composed operator is '
             'extracted symbolically (no input is ever chosen), its extent is checked (N or N+1 for odd N), and for '
             'each PyWavelets wavelet of that length the tap polynomial entries are evaluated at the table values and '
             'must equal the identity up to max(1e-9, 1.5x PyWavelets\' own reconstruction error) - which is the '
             'dmey clause of the property. Unpad/level-loop bookkeeping is part of the interpreted code.',
        note=TB + ' Perfect reconstruction of the PyWavelets tables themselves is an external fact that is '
                  're-checked numerically through the composed operator.'),
    'C05': dict(
        level='other', design='DESIGN.md 4/C05',
        technique='abstract interpretation of forward and hand-written backward of each autograd Function; '
                  'operator transposition; exhaustive enumeration of needs_input_grad subsets',
        text='For AFB1D, AFB2D, SFB1D, SFB2D, every mode, filter lengths, sizes (odd included) and every non-empty '
             'subset of differentiable inputs: backward, interpreted on symbolic cotangents, must return for every '
             'required input a gradient whose operator equals the transpose of the interpreted forward operator, '
             'for all cotangents and all filter values; arity / None-ness are checked as autograd enforces them. '
             'Non-adjoint modes of the pinned tree are recorded known findings keyed by (Function, mode, class of '
             'difference, slot).',
        note=TB),
    'C10': dict(
        level='translation_validation', design='DESIGN.md 4/C10',
        technique='abstract interpretation over formal taps + translation validation against frozen PyWavelets '
                  'waverec/waverec2 index rules',
        text='The operator denoted by DWT1DInverse/DWTInverse on independent symbolic coefficient tensors (so: on '
             'arbitrary pyramids, not only images of the analysis) equals PyWavelets\' waverec/waverec2 operator per '
             'mode, filter length, size and level count, including the unpad rule; every mask of None levels for '
             'J<=3 is compared with zeros of the right shape on the signal extent.',
        note=TB),
    'C13': dict(
        level='translation_validation', design='DESIGN.md 4/C13',
        technique='abstract interpretation + translation validation against the frozen pywt.swt2 rule; circulant '
                  'structure of the extracted operator',
        text='SWTForward with default mode, periodization and periodic: constructor and forward must not raise, '
             'every level has shape (N,C,4,H,W) at full resolution, each band equals the swt2 operator (periodic, '
             'filters dilated by 2^(j-1), band order A,H,V,D) for all inputs, and every axis table is circulant, '
             'which is shift-equivariance.',
        note=TB),
    'C14': dict(
        level='other', design='DESIGN.md 4/C14',
        technique='role-flow by abstract interpretation: the four user filters are distinct formal symbols; the '
                  'axis each one ends up filtering is read off the extracted operator',
        text='DWTForward/DWTInverse constructed with a 4-tuple (different filter lengths per axis) must apply the '
             'column pair along the vertical axis and the row pair along the horizontal axis, exactly as the '
             'PyWavelets per-axis rule and as the functional afb2d/sfb2d given the same four filters; 2-tuples use '
             'one pair on both axes. Complete over the def-use graph because the whole constructor-to-conv path is '
             'interpreted.',
        note=TB),
    'C17': dict(
        level='other', design='DESIGN.md 4/C17',
        technique='operator identity between the interpreted inverse (rec taps substituted by reversed dec taps) '
                  'and the transpose of the interpreted forward; PyWavelets tables read as data',
        text='Under the precondition of the property (periodization, every level even and >= filter length): '
             'inverse[g=rev h] == transpose(forward) cell by cell with formal taps, 1-D and 2-D, J<=3; all PyWavelets '
             'orthogonal families satisfy rec=rev(dec) and orthonormality under even shifts. With C02 this yields '
             'A^T A = I and energy preservation; with C05 back-propagation equals the inverse.',
        note=TB),
    'C19': dict(
        level='translation_validation', design='DESIGN.md 4/C19',
        technique='sibling translation validation by abstract interpretation (no external oracle)',
        text='afb2d_nonsep vs afb2d and sfb2d_nonsep vs sfb2d are interpreted on the same symbolic input and formal '
             'filters (2- and 4-filter forms, different lengths per axis) for zero, symmetric, reflect, '
             'periodization: the extracted operators of all four subbands / of the reconstruction must be identical '
             '(or both must raise).',
        note=TB),
}

NOT_APPLICABLE = {}


def main():
    props = [json.loads(l) for l in open(os.path.join(VERIF, 'properties.jsonl'))]
    checks = []
    na = []
    for p in props:
        pid = p['id']
        if pid in CLAIMED:
            c = CLAIMED[pid]
            checks.append({
                'property_id': pid,
                'quick_cmd': '/venv/bin/python -m pwa check %s --tier quick' % pid,
                'thorough_cmd': '/venv/bin/python -m pwa check %s --tier thorough' % pid,
                'evidence_file': '/verif/evidence/%s.json' % pid,
                'replay_cmd_template': '/venv/bin/python -m pwa check %s --tier thorough  # findings of the failing '
                                       'run are listed in {path}' % pid,
                'engine': 'pwa',
                'level_claimed': {'category': c['level'], 'text': c['text'], 'design_ref': c['design']},
                'level_note': c['note'],
                'technique': c['technique'],
            })
        else:
            na.append({'property_id': pid,
                       'reason': NOT_APPLICABLE.get(pid, 'check not built yet (construction in progress, see DESIGN.md section 5)')})
    m = {
        'version': 1,
        'setup_cmd': 'true',
        'hooks': {
            'guard': 'PYTORCH_WAVELETS_VERIF',
            'enable': 'none needed: static analysis reads the source tree; no instrumentation is compiled into /repo',
            'baseline_off_cmd': 'cd /repo && /venv/bin/python -m pytest -ra -q -p no:cacheprovider --timeout=900 '
                                '--continue-on-collection-errors',
            'source_commits': [],
            'add_only': True,
        },
        'engines': [{
            'name': 'pwa', 'path': '/verif/pwa',
            'serves_properties': sorted(CLAIMED),
            'kind_free_text': 'static analysis: AST interpreter over an abstract domain (no repository code is '
                              'imported or executed), rule checkers, and a reader for the shipped .npz tables',
        }],
        'checks': checks,
        'notes': 'All checks are static: they parse /repo/pytorch_wavelets on every run. known_findings.json lists '
                 'genuine defects recorded rather than repaired, and the fix: commits made in /repo.',
        'not_applicable': na,
    }
    with open(os.path.join(VERIF, 'MANIFEST.json'), 'w') as f:
        json.dump(m, f, indent=1)
    print('claimed', sorted(CLAIMED), 'n/a', [x['property_id'] for x in na])


if __name__ == '__main__':
    main()
