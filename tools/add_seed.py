"""usage: add_seed.py <prop> <k> <new id> "<needs to manifest>" <check> [<check> ...]

Development-time helper: copies a sub-agent's confirmed change (MUTDIR/<prop>.out/<k>: patch.diff, demo.py, notes.md)
into seeded/<new id>/ and writes meta.json from the independent confirmation record written by tools/confirm_seed.sh
(/tmp/seedchk/<TAG><prop>_<k>.json).  Refuses unconfirmed changes."""
import json
import os
import shutil
import sys

VERIF = os.path.dirname(os.path.dirname(os.path.abspath(__file__)))
prop, k, sid, needs = sys.argv[1:5]
checks = sys.argv[5:]
mutdir = os.environ.get('MUTDIR', '/tmp/mut')
tag = os.environ.get('TAG', '')
src = os.path.join(mutdir, '%s.out' % prop, k)
conf = json.load(open('/tmp/seedchk/%s%s_%s.json' % (tag, prop, k)))
if not conf['confirmed']:
    sys.exit('not confirmed: %s' % conf)
dst = os.path.join(VERIF, 'seeded', sid)
os.makedirs(dst, exist_ok=True)
for f in ('patch.diff', 'demo.py', 'notes.md'):
    shutil.copy(os.path.join(src, f), os.path.join(dst, f))
meta = {
    'id': sid, 'breaks_property': prop, 'needs_to_manifest': needs,
    'origin': 'independent sub-agent (second round: asked for changes that need a specific size class, argument form, '
              'option combination, call history or pair of cooperating edits) given only the property record and a '
              'scratch worktree of /repo',
    'confirmed_by': {'script': 'MUTDIR=%s TAG=%s tools/confirm_seed.sh %s %s' % (mutdir, tag, prop, k),
                     'repo_head': conf['repo_head'], 'demo_exit_on_clean_tree': conf['demo_exit_clean'],
                     'patch_applies': conf['patch_applies'], 'demo_exit_with_patch': conf['demo_exit_mutated'],
                     'existing_tests_with_patch': conf['tests_summary'],
                     'failing_tests_are_the_known_unrelated_ones': conf['tests_failed'] == conf['known_unrelated_failures']},
    'reported_by_checks': checks,
    'how_to_run_checks': 'tools/try_patch.sh seeded/%s/patch.diff %s' % (sid, ' '.join(checks)),
}
json.dump(meta, open(os.path.join(dst, 'meta.json'), 'w'), indent=1)
print('added', sid, checks)
