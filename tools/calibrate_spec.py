"""Development-time calibration of pwa/spec.py against the installed PyWavelets.
Not part of any registered check; run by hand:  /venv/bin/python tools/calibrate_spec.py
"""
import sys, os
sys.path.insert(0, os.path.dirname(os.path.dirname(os.path.abspath(__file__))))
import numpy as np, pywt
from pwa import spec

rng = np.random.default_rng(0)
bad = 0; n_cases = 0
for w in ['db1', 'db2', 'db3', 'db5', 'bior2.4', 'bior3.9', 'sym4', 'coif2', 'rbio1.5', 'dmey']:
    W = pywt.Wavelet(w); L = W.dec_len
    for mode in ['zero', 'symmetric', 'reflect', 'periodic', 'periodization']:
        for n in list(range(1, 40)) + [L - 1, L, L + 1, 2 * L + 1]:
            if n < 1: continue
            x = rng.standard_normal(n)
            try:
                ca, cd = pywt.dwt(x, W, mode=mode)
            except Exception as e:
                continue
            rule = spec.dwt_rule(n, L, mode)
            for taps, ref in ((W.dec_lo, ca), (W.dec_hi, cd)):
                y = np.array([sum(taps[j] * x[i] for j, i in row) for row in rule])
                n_cases += 1
                if y.shape != ref.shape or not np.allclose(y, ref, atol=1e-10):
                    bad += 1
                    if bad < 10: print('DWT MISMATCH', w, mode, n, y.shape, ref.shape)
            # idwt on arbitrary coefficients
            m = len(ca)
            a = rng.standard_normal(m); d = rng.standard_normal(m)
            ref = pywt.idwt(a, d, W, mode=mode)
            rule = spec.idwt_rule(m, L, mode)
            y = np.array([sum(W.rec_lo[t] * a[k] + W.rec_hi[t] * d[k] for t, k in row) for row in rule])
            n_cases += 1
            if y.shape != ref.shape or not np.allclose(y, ref, atol=1e-10):
                bad += 1
                if bad < 10: print('IDWT MISMATCH', w, mode, n, m, y.shape, ref.shape)
# swt
for w in ['db1', 'db2', 'db4', 'bior2.4', 'sym5']:
    W = pywt.Wavelet(w); L = W.dec_len
    for J in (1, 2, 3):
        for n in (8, 16, 24, 40):
            if n % 2 ** J: continue
            x = rng.standard_normal(n)
            res = pywt.swt(x, W, level=J, trim_approx=False, norm=False)[::-1]   # level 1 first
            cur = x
            for lev in range(1, J + 1):
                rule = spec.swt_rule(n, L, lev)
                a = np.array([sum(W.dec_lo[j] * cur[i] for j, i in row) for row in rule])
                d = np.array([sum(W.dec_hi[j] * cur[i] for j, i in row) for row in rule])
                n_cases += 1
                if not (np.allclose(a, res[lev - 1][0], atol=1e-10) and np.allclose(d, res[lev - 1][1], atol=1e-10)):
                    bad += 1
                    if bad < 10: print('SWT MISMATCH', w, J, n, lev)
                cur = a
print('cases', n_cases, 'mismatches', bad)
