"""Development-time calibration of the primitive transfer table (pwa/ops.py, pwa/domain.py) against real torch.

For each primitive: build an abstract input over a symbolic base and formal filter taps, apply the abstract
primitive, evaluate the resulting tables numerically on random data / tap values, and compare with the real
torch primitive on the same numbers.  Not part of any registered check; run by hand:
    /venv/bin/python tools/calibrate_prims.py
"""
import itertools
import os
import sys

sys.path.insert(0, os.path.dirname(os.path.dirname(os.path.abspath(__file__))))
import numpy as np
import torch
import torch.nn.functional as F

from pwa import ops
from pwa.domain import Base, DataT, Poly, Q2
from pwa.sym import Sym
from pwa.props.dwtlib import table_matrix
from pwa.fakelibs import Libs
import pwa.tensor_api  # noqa: installs operators

rng = np.random.default_rng(0)
torch.set_num_threads(1)


def base(nb, c, h, w, extra=()):
    dims = [('E', nb), ('E', c)] + [('E', e) for e in extra] + [('S', h), ('S', w)]
    b = Base('x', dims)
    return b, b.tensor()


def sym_filter(shape, tag):
    arr = np.empty(shape, dtype=object)
    vals = {}
    i = 0
    for idx in np.ndindex(*shape):
        arr[idx] = Poly.sym(('f', tag), i)
        vals[(('f', tag), i)] = float(rng.standard_normal())
        i += 1
    num = np.zeros(shape)
    i = 0
    for idx in np.ndindex(*shape):
        num[idx] = vals[(('f', tag), i)]
        i += 1
    return Sym(arr, 'torch', 'module'), num, vals


def evaluate(t, b, X, vals):
    """numeric value of abstract tensor t over base b with data X"""
    sizes = [s for k, s in b.dims if k == 'S']
    out = np.zeros([s for _, s in t.dims])
    e_axes = t.e_axes()
    for idx in np.ndindex(*t.cells.shape):
        acc = np.zeros([s for k, s in t.dims if k == 'S'])
        for term in t.cells[idx]:
            x = X[term.bchan]
            mats = {tb.base_axis[1]: table_matrix(tb, sizes[tb.base_axis[1]], vals) for tb in term.tables}
            # term.tables are ordered by the tensor's spatial dims
            y = x
            order = [tb.base_axis[1] for tb in term.tables]
            m0 = table_matrix(term.tables[0], sizes[order[0]], vals)
            m1 = table_matrix(term.tables[1], sizes[order[1]], vals)
            if order == [0, 1]:
                y = m0 @ x @ m1.T
            else:
                y = m0 @ x.T @ m1.T
            acc = acc + float(term.coef) * y
        full = [slice(None)] * len(t.dims)
        for a, i in zip(e_axes, idx):
            full[a] = i
        out[tuple(full)] = acc
    return out


bad = n = 0


def check(name, abstract, real, tol=1e-10):
    global bad, n
    n += 1
    if abstract.shape != tuple(real.shape) or not np.allclose(abstract, real.numpy() if hasattr(real, 'numpy') else real, atol=tol):
        bad += 1
        print('MISMATCH', name, abstract.shape, tuple(real.shape))


for (h, w) in ((7, 9), (4, 4), (10, 5)):
    nb, c = 2, 3
    b, x = base(nb, c, h, w)
    X = rng.standard_normal((nb, c, h, w))
    Xt = torch.tensor(X)
    # conv2d, grouped, strides, paddings, dilations, 1-D kernels on each axis and outer products
    for kh, kw, s, p, d in ((3, 1, (2, 1), (1, 0), 1), (1, 4, (1, 2), (0, 3), 1), (2, 2, 2, (1, 1), 1), (3, 1, 1, 0, 2),
                            (1, 2, 1, (0, 2), (1, 2))):
        if kh > 1 and kw > 1:
            u, un, uv = sym_filter((kh,), 'u')
            v, vn, vv = sym_filter((kw,), 'v')
            from pwa.sym import outer
            arr = outer(u, v)[None, None].repeat(2 * c, axis=0)
            wS = Sym(arr, 'torch', 'module')
            wn = np.broadcast_to(np.outer(un, vn)[None, None], (2 * c, 1, kh, kw)).copy()
            vals = {**uv, **vv}
        else:
            wS, wn, vals = sym_filter((2 * c, 1, kh, kw), 'w')
        try:
            ya = ops.conv2d(x, wS, None, s, p, d, c)
            yr = F.conv2d(Xt, torch.tensor(wn), None, s, p, d, c)
            check('conv2d %s' % ((kh, kw, s, p, d),), evaluate(ya, b, X, vals), yr)
        except Exception as e:
            try:
                F.conv2d(Xt, torch.tensor(wn), None, s, p, d, c)
                bad += 1
                print('MISMATCH conv2d raises only abstractly', (kh, kw, s, p, d), e)
            except Exception:
                n += 1
    # conv_transpose2d
    for kh, kw, s, p in ((4, 1, (2, 1), (2, 0)), (1, 6, (1, 2), (0, 4)), (2, 1, (2, 1), 0)):
        wS, wn, vals = sym_filter((c, 1, kh, kw), 'g')
        ya = ops.conv_transpose2d(x, wS, None, s, p, 0, c)
        yr = F.conv_transpose2d(Xt, torch.tensor(wn), None, s, p, 0, c)
        check('conv_transpose2d %s' % ((kh, kw, s, p),), evaluate(ya, b, X, vals), yr)
    # pad
    for mode in ('constant', 'reflect', 'replicate', 'circular'):
        for pad in ((1, 2, 0, 0), (0, 0, 2, 1), (2, 1, 1, 3), (0, 1, 0, 1)):
            try:
                yr = F.pad(Xt, pad, mode)
            except Exception:
                yr = None
            try:
                ya = ops.pad(x, pad, mode)
            except Exception:
                ya = None
            if (ya is None) != (yr is None):
                bad += 1
                print('MISMATCH pad raise', mode, pad, (h, w))
            elif ya is not None:
                check('pad %s %s' % (mode, pad), evaluate(ya, b, X, {}), yr)
    # pooling / interpolation
    if h >= 2 and w >= 2:
        check('avg_pool2d', evaluate(ops.avg_pool2d(x, 2), b, X, {}), F.avg_pool2d(Xt, 2))
    check('interpolate', evaluate(ops.interpolate(x, scale_factor=2, mode='nearest'), b, X, {}),
          F.interpolate(Xt, scale_factor=2, mode='nearest'))
    # indexing, cat, stack + view interleave, permute, reshape, flip, roll, strided stores
    check('slice', evaluate(x[:, :, 1::2, :-1], b, X, {}), Xt[:, :, 1::2, :-1])
    idx = np.array([0, 0, 1, h - 1, 2])
    check('gather', evaluate(x[:, :, idx], b, X, {}), Xt[:, :, idx])
    check('gather2', evaluate(x[:, :, :, np.array([w - 1, 0, 1])], b, X, {}), Xt[:, :, :, [w - 1, 0, 1]])
    check('cat S', evaluate(ops.cat((x, x[:, :, -1:]), 2), b, X, {}), torch.cat((Xt, Xt[:, :, -1:]), 2))
    check('cat E', evaluate(ops.cat((x[:, :1], x), 1), b, X, {}), torch.cat((Xt[:, :1], Xt), 1))
    a0, a1 = x[:, :, 0::2][:, :, :h // 2], x[:, :, 1::2][:, :, :h // 2]
    r0, r1 = Xt[:, :, 0::2][:, :, :h // 2], Xt[:, :, 1::2][:, :, :h // 2]
    check('stack-view rows', evaluate(ops.reshape(ops.stack((a1, a0), -2), [nb, c, 2 * (h // 2), w], True), b, X, {}),
          torch.stack((r1, r0), -2).view(nb, c, 2 * (h // 2), w))
    b0, b1 = x[:, :, :, 0::2][:, :, :, :w // 2], x[:, :, :, 1::2][:, :, :, :w // 2]
    s0, s1 = Xt[:, :, :, 0::2][:, :, :, :w // 2], Xt[:, :, :, 1::2][:, :, :, :w // 2]
    check('stack-view cols', evaluate(ops.reshape(ops.stack((b0, b1), -1), [nb, c, h, 2 * (w // 2)], True), b, X, {}),
          torch.stack((s0, s1), -1).view(nb, c, h, 2 * (w // 2)))
    check('reshape bands', evaluate(ops.reshape(ops.cat((x, x), 1), [nb, -1, 2, h, w]), b, X, {}),
          torch.cat((Xt, Xt), 1).reshape(nb, -1, 2, h, w))
    L = Libs()
    check('flip', evaluate(L._torch_flip(x, [3]), b, X, {}), torch.flip(Xt, [3]))
    check('roll', evaluate(L._torch_roll(x, -2, 2), b, X, {}), torch.roll(Xt, -2, 2))
    y = ops.zeros([nb, c, 2 * h, 2 * w], 'in')
    Y = torch.zeros(nb, c, 2 * h, 2 * w, dtype=torch.float64)
    y[:, :, ::2, 1::2] = x
    Y[:, :, ::2, 1::2] = Xt
    y[:, :, 1::2, ::2] = x * 2
    Y[:, :, 1::2, ::2] = Xt * 2
    check('strided store', evaluate(y, b, X, {}), Y)
    z = ops.cat((x, x), 2)
    Z = torch.cat((Xt, Xt), 2)
    z[:, :, :2] = z[:, :, :2] + z[:, :, h:h + 2]
    Z[:, :, :2] = Z[:, :, :2] + Z[:, :, h:h + 2]
    check('fold store', evaluate(z, b, X, {}), Z)
    check('arith', evaluate((x - x[:, :, :, :] * 3) / np.sqrt(2), b, X, {}), (Xt - Xt * 3) / np.sqrt(2))
print('primitive cases', n, 'mismatches', bad)
