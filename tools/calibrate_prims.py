"""Development-time calibration of the primitive transfer table (pwa/ops.py, pwa/domain.py) against real torch.

For each primitive: build an abstract input over a symbolic base and formal filter taps, apply the abstract
primitive, evaluate the resulting tables numerically on random data / tap values, and compare with the real
torch primitive on the same numbers.  Not part of any registered check; run by hand:
    /venv/bin/python tools/calibrate_prims.py
"""
import itertools
import os
import sys

sys.path.insert(0, os.path.dirname(os.path.dirname(os.path.abspath(__file__))))
import numpy as np
import torch
import torch.nn.functional as F

from pwa import ops
from pwa.domain import Base, DataT, Poly, Q2
from pwa.sym import Sym
from pwa.props.dwtlib import table_matrix
from pwa.fakelibs import Libs
import pwa.tensor_api  # noqa: installs operators

rng = np.random.default_rng(0)
torch.set_num_threads(1)


def base(nb, c, h, w, extra=()):
    dims = [('E', nb), ('E', c)] + [('E', e) for e in extra] + [('S', h), ('S', w)]
    b = Base('x', dims)
    return b, b.tensor()


def sym_filter(shape, tag):
    arr = np.empty(shape, dtype=object)
    vals = {}
    i = 0
    for idx in np.ndindex(*shape):
        arr[idx] = Poly.sym(('f', tag), i)
        vals[(('f', tag), i)] = float(rng.standard_normal())
        i += 1
    num = np.zeros(shape)
    i = 0
    for idx in np.ndindex(*shape):
        num[idx] = vals[(('f', tag), i)]
        i += 1
    return Sym(arr, 'torch', 'module'), num, vals


def evaluate(t, b, X, vals):
    """numeric value of abstract tensor t over base b with data X"""
    sizes = [s for k, s in b.dims if k == 'S']
    out = np.zeros([s for _, s in t.dims])
    e_axes = t.e_axes()
    for idx in np.ndindex(*t.cells.shape):
        acc = np.zeros([s for k, s in t.dims if k == 'S'])
        for term in t.cells[idx]:
            x = X[term.bchan]
            mats = {tb.base_axis[1]: table_matrix(tb, sizes[tb.base_axis[1]], vals) for tb in term.tables}
            # term.tables are ordered by the tensor's spatial dims
            y = x
            order = [tb.base_axis[1] for tb in term.tables]
            m0 = table_matrix(term.tables[0], sizes[order[0]], vals)
            m1 = table_matrix(term.tables[1], sizes[order[1]], vals)
            if order == [0, 1]:
                y = m0 @ x @ m1.T
            else:
                y = m0 @ x.T @ m1.T
            acc = acc + float(term.coef) * y
        full = [slice(None)] * len(t.dims)
        for a, i in zip(e_axes, idx):
            full[a] = i
        out[tuple(full)] = acc
    return out


bad = n = unmodelled = 0


def lazy(name, fa, fr, tol=1e-10):
    """both sides as thunks: raising must agree as well (PyExc of the model vs any exception of torch)"""
    global bad, n
    from pwa.errors import PyExc
    from pwa.errors import AnalysisError
    try:
        a = fa()
        ea = None
    except PyExc as e:
        a, ea = None, e
    except AnalysisError as e:
        global unmodelled
        unmodelled += 1          # the model declines (exit 2 in a check): never a wrong answer
        return
    try:
        r = fr()
        er = None
    except Exception as e:
        r, er = None, e
    if (ea is None) != (er is None):
        n += 1
        bad += 1
        print('MISMATCH raising', name, 'model:', ea, 'torch:', str(er)[:80])
        return
    if ea is not None:
        n += 1
        return
    check(name, a, r, tol)


def check(name, abstract, real, tol=1e-10):
    global bad, n
    n += 1
    if abstract.shape != tuple(real.shape) or not np.allclose(abstract, real.numpy() if hasattr(real, 'numpy') else real, atol=tol):
        bad += 1
        print('MISMATCH', name, abstract.shape, tuple(real.shape))


for (h, w) in ((7, 9), (4, 4), (10, 5), (1, 6), (2, 2), (2, 1)):
    nb, c = 2, 3
    b, x = base(nb, c, h, w)
    X = rng.standard_normal((nb, c, h, w))
    Xt = torch.tensor(X)
    # conv2d, grouped, strides, paddings, dilations, 1-D kernels on each axis and outer products
    for kh, kw, s, p, d in ((3, 1, (2, 1), (1, 0), 1), (1, 4, (1, 2), (0, 3), 1), (2, 2, 2, (1, 1), 1), (3, 1, 1, 0, 2),
                            (1, 2, 1, (0, 2), (1, 2))):
        if kh > 1 and kw > 1:
            u, un, uv = sym_filter((kh,), 'u')
            v, vn, vv = sym_filter((kw,), 'v')
            from pwa.sym import outer
            arr = outer(u, v)[None, None].repeat(2 * c, axis=0)
            wS = Sym(arr, 'torch', 'module')
            wn = np.broadcast_to(np.outer(un, vn)[None, None], (2 * c, 1, kh, kw)).copy()
            vals = {**uv, **vv}
        else:
            wS, wn, vals = sym_filter((2 * c, 1, kh, kw), 'w')
        try:
            ya = ops.conv2d(x, wS, None, s, p, d, c)
            yr = F.conv2d(Xt, torch.tensor(wn), None, s, p, d, c)
            check('conv2d %s' % ((kh, kw, s, p, d),), evaluate(ya, b, X, vals), yr)
        except Exception as e:
            try:
                F.conv2d(Xt, torch.tensor(wn), None, s, p, d, c)
                bad += 1
                print('MISMATCH conv2d raises only abstractly', (kh, kw, s, p, d), e)
            except Exception:
                n += 1
    # conv_transpose2d
    for kh, kw, s, p in ((4, 1, (2, 1), (2, 0)), (1, 6, (1, 2), (0, 4)), (2, 1, (2, 1), 0)):
        wS, wn, vals = sym_filter((c, 1, kh, kw), 'g')
        lazy('conv_transpose2d %s' % ((kh, kw, s, p),),
             lambda: evaluate(ops.conv_transpose2d(x, wS, None, s, p, 0, c), b, X, vals),
             lambda: F.conv_transpose2d(Xt, torch.tensor(wn), None, s, p, 0, c))
    # pad
    for mode in ('constant', 'reflect', 'replicate', 'circular'):
        for pad in ((1, 2, 0, 0), (0, 0, 2, 1), (2, 1, 1, 3), (0, 1, 0, 1)):
            try:
                yr = F.pad(Xt, pad, mode)
            except Exception:
                yr = None
            try:
                ya = ops.pad(x, pad, mode)
            except Exception:
                ya = None
            if (ya is None) != (yr is None):
                bad += 1
                print('MISMATCH pad raise', mode, pad, (h, w))
            elif ya is not None:
                check('pad %s %s' % (mode, pad), evaluate(ya, b, X, {}), yr)
    # pooling / interpolation
    if h >= 2 and w >= 2:
        check('avg_pool2d', evaluate(ops.avg_pool2d(x, 2), b, X, {}), F.avg_pool2d(Xt, 2))
    check('interpolate', evaluate(ops.interpolate(x, scale_factor=2, mode='nearest'), b, X, {}),
          F.interpolate(Xt, scale_factor=2, mode='nearest'))
    # indexing, cat, stack + view interleave, permute, reshape, flip, roll, strided stores
    lazy('slice', lambda: evaluate(x[:, :, 1::2, :-1], b, X, {}), lambda: Xt[:, :, 1::2, :-1])
    idx = np.array([0, 0, 1, h - 1, 2])
    lazy('gather', lambda: evaluate(x[:, :, idx], b, X, {}), lambda: Xt[:, :, idx])
    lazy('gather2', lambda: evaluate(x[:, :, :, np.array([w - 1, 0, 1])], b, X, {}), lambda: Xt[:, :, :, [w - 1, 0, 1]])
    lazy('cat S', lambda: evaluate(ops.cat((x, x[:, :, -1:]), 2), b, X, {}), lambda: torch.cat((Xt, Xt[:, :, -1:]), 2))
    lazy('cat E', lambda: evaluate(ops.cat((x[:, :1], x), 1), b, X, {}), lambda: torch.cat((Xt[:, :1], Xt), 1))
    if h >= 4 and w >= 4:            # interleaves / strided stores need non-degenerate extents
        a0, a1 = x[:, :, 0::2][:, :, :h // 2], x[:, :, 1::2][:, :, :h // 2]
        r0, r1 = Xt[:, :, 0::2][:, :, :h // 2], Xt[:, :, 1::2][:, :, :h // 2]
        check('stack-view rows', evaluate(ops.reshape(ops.stack((a1, a0), -2), [nb, c, 2 * (h // 2), w], True), b, X, {}),
              torch.stack((r1, r0), -2).view(nb, c, 2 * (h // 2), w))
        b0, b1 = x[:, :, :, 0::2][:, :, :, :w // 2], x[:, :, :, 1::2][:, :, :, :w // 2]
        s0, s1 = Xt[:, :, :, 0::2][:, :, :, :w // 2], Xt[:, :, :, 1::2][:, :, :, :w // 2]
        check('stack-view cols', evaluate(ops.reshape(ops.stack((b0, b1), -1), [nb, c, h, 2 * (w // 2)], True), b, X, {}),
              torch.stack((s0, s1), -1).view(nb, c, h, 2 * (w // 2)))
        check('reshape bands', evaluate(ops.reshape(ops.cat((x, x), 1), [nb, -1, 2, h, w]), b, X, {}),
              torch.cat((Xt, Xt), 1).reshape(nb, -1, 2, h, w))
        L = Libs()
        lazy('flip', lambda: evaluate(L._torch_flip(x, [3]), b, X, {}), lambda: torch.flip(Xt, [3]))
        lazy('roll', lambda: evaluate(L._torch_roll(x, -2, 2), b, X, {}), lambda: torch.roll(Xt, -2, 2))
        y = ops.zeros([nb, c, 2 * h, 2 * w], 'in')
        Y = torch.zeros(nb, c, 2 * h, 2 * w, dtype=torch.float64)
        y[:, :, ::2, 1::2] = x
        Y[:, :, ::2, 1::2] = Xt
        y[:, :, 1::2, ::2] = x * 2
        Y[:, :, 1::2, ::2] = Xt * 2
        lazy('strided store', lambda: evaluate(y, b, X, {}), lambda: Y)
        z = ops.cat((x, x), 2)
        Z = torch.cat((Xt, Xt), 2)
        z[:, :, :2] = z[:, :, :2] + z[:, :, h:h + 2]
        Z[:, :, :2] = Z[:, :, :2] + Z[:, :, h:h + 2]
        lazy('fold store', lambda: evaluate(z, b, X, {}), lambda: Z)
        lazy('arith', lambda: evaluate((x - x[:, :, :, :] * 3) / np.sqrt(2), b, X, {}), lambda: (Xt - Xt * 3) / np.sqrt(2))
    # unit-axis broadcasting, expand, linear reductions over enumerated dims, tile, functional spellings
    lazy('bcast unit rows', lambda: evaluate(x + x[:, :, :1], b, X, {}), lambda: Xt + Xt[:, :, :1])
    lazy('bcast unit both', lambda: evaluate(x[:, :, :, :1] - x[:, :, :1], b, X, {}), lambda: Xt[:, :, :, :1] - Xt[:, :, :1])
    from pwa import tensor_api as TA
    lazy('expand unit S', lambda: evaluate(TA._expand(L, x[:, :, :1], -1, -1, 3, -1), b, X, {}), lambda: Xt[:, :, :1].expand(-1, -1, 3, -1))
    lazy('sum over stack', lambda: evaluate(TA._METHODS['sum'](L, ops.stack((x, x * 2), 0), 0), b, X, {}), lambda: torch.stack((Xt, Xt * 2), 0).sum(0))
    lazy('mean over channels keepdim', lambda: evaluate(TA._METHODS['mean'](L, x, 1, True), b, X, {}), lambda: Xt.mean(1, keepdim=True))
    lazy('tile', lambda: evaluate(L._tile(x, [1, 1, 2, 1]), b, X, {}), lambda: torch.tile(Xt, (1, 1, 2, 1)))
    y2 = ops.zeros([nb, c, h, w], 'in'); Y2 = torch.zeros(nb, c, h, w, dtype=torch.float64)
    TA.get(L, y2, 'add_')(x, alpha=3); Y2.add_(Xt, alpha=3)
    lazy('add_ alpha', lambda: evaluate(y2, b, X, {}), lambda: Y2)
    TA.get(L, y2, 'copy_')(x[:, :, :1]); Y2.copy_(Xt[:, :, :1])
    lazy('copy_ broadcast', lambda: evaluate(y2, b, X, {}), lambda: Y2)
    check('unflatten-movedim-reshape', evaluate(ops.reshape(L._movedim(ops.reshape(ops.cat((x, x * 2), 1), [nb, 2, c, h, w]), 1, 3), [nb, c, 2 * h, w]), b, X, {}),
          torch.cat((Xt, Xt * 2), 1).unflatten(1, (2, c)).movedim(1, 3).reshape(nb, c, 2 * h, w))
    if h >= 4 and w >= 4:
        y3 = x * 1
        Y3 = Xt.clone()
        y3[:, :, 1:3, 1:4] = x[:, :, 0:2, 0:3] * 5
        Y3[:, :, 1:3, 1:4] = Xt[:, :, 0:2, 0:3] * 5
        check('rectangle overwrite', evaluate(y3, b, X, {}), Y3)
        y3[:, :, ::2, 1::2] = x[:, :, :(h + 1) // 2, :w // 2]
        Y3[:, :, ::2, 1::2] = Xt[:, :, :(h + 1) // 2, :w // 2]
        check('strided overwrite', evaluate(y3, b, X, {}), Y3)
print('primitive cases', n, 'mismatches', bad, 'declined by the model', unmodelled)
