#!/bin/bash
# usage: confirm_seed.sh <prop> <k>   -- independently confirm a seeded change produced by a sub-agent
# writes /tmp/seedchk/<prop>_<k>.json ; scratch worktree is removed afterwards
P=$1; K=$2
SRC=${MUTDIR:-/tmp/mut}/$P.out/$K
WT=/tmp/seedchk/wt${TAG:-}_${P}_$K
OUT=/tmp/seedchk/${TAG:-}${P}_$K.json
export OMP_NUM_THREADS=1 MKL_NUM_THREADS=1
rm -rf "$WT"; git -C /repo worktree prune
git -C /repo worktree add -q --detach "$WT" HEAD || exit 3
cd "$WT"
run_demo() { PYTHONPATH="$WT" timeout 3000 /venv/bin/python "$SRC/demo.py" > "$1" 2>&1; echo $?; }
CLEAN=$(run_demo /tmp/seedchk/${TAG:-}${P}_$K.clean.log)
APPLY=0; git apply --whitespace=nowarn "$SRC/patch.diff" || APPLY=1
MUT=$(run_demo /tmp/seedchk/${TAG:-}${P}_$K.mut.log)
PYTHONPATH="$WT" timeout 7200 /venv/bin/python -m pytest tests/test_dwt.py tests/test_dwt1d.py tests/test_dtcwt.py tests/test_scatnet_fwd.py -q -p no:cacheprovider -n ${NPROC:-5} --timeout=3000 > /tmp/seedchk/${TAG:-}${P}_$K.tests.log 2>&1
SUMMARY=$(tail -1 /tmp/seedchk/${TAG:-}${P}_$K.tests.log)
FAILED=$(grep -c "^FAILED" /tmp/seedchk/${TAG:-}${P}_$K.tests.log)
BARB=$(grep "^FAILED" /tmp/seedchk/${TAG:-}${P}_$K.tests.log | grep -c "test_barbara_loaded\|test_simple\|test_specific_wavelet\|test_odd_rows\|test_odd_cols\|test_odd_rows_and_cols")
HEADC=$(git -C /repo rev-parse --short HEAD)
cd /; git -C /repo worktree remove --force "$WT"
python3 - "$OUT" "$P" "$K" "$CLEAN" "$APPLY" "$MUT" "$SUMMARY" "$FAILED" "$BARB" "$HEADC" <<'PY'
import json,sys
out,p,k,clean,apply_,mut,summary,failed,barb,head=sys.argv[1:]
json.dump({'property':p,'k':int(k),'repo_head':head,'demo_exit_clean':int(clean),'patch_applies':apply_=='0','demo_exit_mutated':int(mut),
           'tests_summary':summary,'tests_failed':int(failed),'known_unrelated_failures':int(barb),
           'confirmed': clean=='0' and apply_=='0' and mut not in ('0','124') and int(failed)==int(barb) and 'passed' in summary and '241 passed' in summary},
          open(out,'w'),indent=1)
print(open(out).read())
PY
