"""Development-time calibration of the DTCWT reference rules in pwa/spec.py against dtcwt 0.14.0."""
import sys, os
sys.path.insert(0, os.path.dirname(os.path.dirname(os.path.abspath(__file__))))
import numpy as np
from dtcwt.numpy.lowlevel import colfilter, coldfilt, colifilt
from dtcwt.coeffs import biort, qshift
from pwa import spec
rng = np.random.default_rng(1)
bad = n_cases = 0
for name in ['antonini', 'legall', 'near_sym_a', 'near_sym_b', 'near_sym_b_bp']:
    fs = biort(name)
    for h in fs:
        h = h.ravel()
        for n in list(range(2, 30)):
            X = rng.standard_normal((n, 3))
            ref = colfilter(X, h)
            rule = spec.colfilter_rule(n, len(h))
            Y = np.array([sum(h[j] * X[i] for j, i in row) for row in rule])
            n_cases += 1
            if Y.shape != ref.shape or not np.allclose(Y, ref, atol=1e-12):
                bad += 1; print('colfilter', name, len(h), n)
for name in ['qshift_06', 'qshift_a', 'qshift_b', 'qshift_c', 'qshift_d', 'qshift_b_bp', 'qshift_32']:
    fs = qshift(name)
    keys = ['h0a', 'h0b', 'g0a', 'g0b', 'h1a', 'h1b', 'g1a', 'g1b', 'h2a', 'h2b', 'g2a', 'g2b'][:len(fs)]
    d = dict(zip(keys, [f.ravel() for f in fs]))
    for (ka, kb) in [('h0b', 'h0a'), ('h1b', 'h1a'), ('g0b', 'g0a'), ('g1b', 'g1a')] + ([('h2b', 'h2a'), ('g2b', 'g2a')] if 'h2a' in d else []):
        ha, hb = d[ka], d[kb]
        pos = float(ha @ hb) > 0
        for n in range(4, 44, 4):
            X = rng.standard_normal((n, 2))
            ref = coldfilt(X, ha, hb)
            rule = spec.coldfilt_rule(n, len(ha), pos)
            Y = np.array([sum({'a': ha, 'b': hb}[w][j] * X[i] for w, j, i in row) for row in rule])
            n_cases += 1
            if Y.shape != ref.shape or not np.allclose(Y, ref, atol=1e-12):
                bad += 1; print('coldfilt', name, ka, n)
        for n in range(2, 40, 2):
            X = rng.standard_normal((n, 2))
            ref = colifilt(X, ha, hb)
            rule = spec.colifilt_rule(n, len(ha), pos)
            Y = np.array([sum({'a': ha, 'b': hb}[w][j] * X[i] for w, j, i in row) for row in rule])
            n_cases += 1
            if Y.shape != ref.shape or not np.allclose(Y, ref, atol=1e-12):
                bad += 1; print('colifilt', name, ka, n)
print('cases', n_cases, 'mismatches', bad)
