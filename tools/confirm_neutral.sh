#!/bin/bash
# usage: confirm_neutral.sh <Nid> <k>  -- re-run the agent's equivalence battery: clean tree vs tree with the refactoring
P=$1; K=$2
SRC=${NEUDIR:-/tmp/neu}/$P.out/$K
WT=/tmp/seedchk/nwt_${P}_$K
OUT=/tmp/seedchk/neutral_${P}_$K.json
export OMP_NUM_THREADS=1 MKL_NUM_THREADS=1
rm -rf "$WT"; git -C /repo worktree prune
git -C /repo worktree add -q --detach "$WT" HEAD || exit 3
cd "$WT"
A=/tmp/seedchk/${P}_$K.a.pt; B=/tmp/seedchk/${P}_$K.b.pt
PYTHONPATH="$WT" timeout 3000 /venv/bin/python "$SRC/equiv.py" "$A" > /tmp/seedchk/neutral_${P}_$K.a.log 2>&1; RA=$?
APPLY=0; git apply --whitespace=nowarn "$SRC/patch.diff" || APPLY=1
PYTHONPATH="$WT" timeout 3000 /venv/bin/python "$SRC/equiv.py" "$B" > /tmp/seedchk/neutral_${P}_$K.b.log 2>&1; RB=$?
PYTHONPATH="$WT" timeout 3000 /venv/bin/python "$SRC/equiv.py" compare "$A" "$B" > /tmp/seedchk/neutral_${P}_$K.cmp.log 2>&1; RC=$?
HEADC=$(git -C /repo rev-parse --short HEAD)
cd /; git -C /repo worktree remove --force "$WT"; rm -f "$A" "$B"
echo "{\"id\": \"$P-$K\", \"repo_head\": \"$HEADC\", \"battery_exit_clean\": $RA, \"patch_applies\": $([ $APPLY = 0 ] && echo true || echo false), \"battery_exit_refactored\": $RB, \"compare_exit\": $RC, \"equivalent\": $([ $RA = 0 ] && [ $RB = 0 ] && [ $RC = 0 ] && [ $APPLY = 0 ] && echo true || echo false)}" > "$OUT"
cat "$OUT"
