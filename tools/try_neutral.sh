#!/bin/bash
# usage: tools/try_neutral.sh <patch.diff> [props...]  -- every named check (default: all 19) must stay silent (exit 0)
PATCH=$(readlink -f "$1"); shift
PROPS=${@:-C01 C02 C03 C04 C05 C06 C07 C08 C09 C10 C11 C12 C13 C14 C15 C16 C17 C18 C19}
D=$(mktemp -d /tmp/pwa_neu.XXXXXX)
trap 'rm -rf "$D"' EXIT
mkdir -p "$D/repo" "$D/ev"
cp -r /repo/pytorch_wavelets "$D/repo/"
( cd "$D/repo" && git init -q . && git apply --whitespace=nowarn "$PATCH" ) || { echo "PATCH DOES NOT APPLY"; exit 3; }
for p in $PROPS; do
  OUT=$(PWA_EVIDENCE_DIR="$D/ev" /venv/bin/python -m pwa check "$p" --tier quick --repo "$D/repo" -j ${JOBS:-8} 2>&1)
  RC=$?
  if [ $RC -ne 0 ]; then echo "$p rc=$RC"; echo "$OUT" | grep -v "^KNOWN-FINDING\|^NOTE" | cut -c1-300 | head -4; else echo "$p silent"; fi
done
